use happylock::{RwLock, ThreadKey};
#[test]
fn write_through_a_read_guard() {
	let lock = RwLock::new(0u64);
	std::thread::scope(|s| {
		for _ in 0..2 {
			s.spawn(|| {
				let key = ThreadKey::get().unwrap();
				let mut g = lock.read(key); // shared section
				*g += 1; // compiles with the change: a write inside a shared section
			});
		}
	});
}
