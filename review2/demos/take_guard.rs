use happylock::collection::BoxedLockCollection;
use happylock::{Mutex, ThreadKey};
#[test]
fn move_holds_out_of_collection_guard() {
	let coll = BoxedLockCollection::new(vec![Mutex::new(1), Mutex::new(2)]);
	let key = ThreadKey::get().unwrap();
	let mut g = coll.lock(key);
	// DerefMut<Target = Box<[MutexRef]>> + Default for Box<[T]>
	let stolen = std::mem::take(&mut *g);
	let key = BoxedLockCollection::<Vec<Mutex<i32>>>::unlock(g);
	// the key is back, but both locks are still held by `stolen`
	let r = coll.try_lock(key);
	assert!(r.is_ok(), "key came back while the locks are still held (try_lock fails on our own hold)");
	drop(stolen);
}
