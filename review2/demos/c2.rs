use happylock::collection::BoxedLockCollection;
use happylock::{RwLock, ThreadKey};
#[test]
fn cloned_read_hold_is_released_twice() {
	let coll = BoxedLockCollection::new([RwLock::new(0)]);
	let key = ThreadKey::get().unwrap();
	let g = coll.read(key);
	drop(g[0].clone()); // releases the shared hold although `g` is still alive
	std::thread::scope(|s| {
		s.spawn(|| {
			let key = ThreadKey::get().unwrap();
			let lock = &coll.child()[0];
			assert!(lock.try_write(key).is_err(), "a writer got in while a read guard is alive");
		});
	});
	drop(g);
}
