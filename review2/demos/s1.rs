use happylock::collection::RetryingLockCollection;
use happylock::{Mutex, ThreadKey};
#[test]
fn relist_through_as_mut() {
	let m = Mutex::new(0);
	let mut c = RetryingLockCollection::try_new(vec![&m]).unwrap();
	// safe code lists the same lock a second time after the duplicate check
	AsMut::<Vec<&Mutex<i32>>>::as_mut(&mut c).push(&m);
	let key = ThreadKey::get().unwrap();
	// nothing is held by anybody, yet try_lock fails (C13) ; lock() would never return (C01/C09)
	assert!(c.try_lock(key).is_ok(), "try_lock failed although no leaf lock is held");
}
