use happylock::collection::BoxedLockCollection;
use happylock::{Mutex, ThreadKey};
use std::sync::Arc;
#[test]
fn unchecked_constructor_accepts_two_handles_to_one_lock() {
	let m = Arc::new(Mutex::new(0));
	// `new` skips the duplicate check because its input "owns" its locks
	let c = BoxedLockCollection::new([m.clone(), m]);
	let key = ThreadKey::get().unwrap();
	assert!(c.try_lock(key).is_ok(), "try_lock fails with nothing held; lock() would wait for itself for ever");
}
