// an owned collection locks its members in listing order; that is only safe because nobody
// else can reach the members. With `child()` a sorting collection can be built over the same
// locks, and the two acquire them in opposite orders (ABBA => deadlock under contention).
use happylock::collection::{BoxedLockCollection, OwnedLockCollection};
use happylock::mutex::Mutex;
use happylock::ThreadKey;
use std::cell::RefCell;

thread_local! { static LOG: RefCell<Vec<usize>> = const { RefCell::new(Vec::new()) }; }
struct Rec(parking_lot::RawMutex);
unsafe impl lock_api::RawMutex for Rec {
	const INIT: Self = Rec(<parking_lot::RawMutex as lock_api::RawMutex>::INIT);
	type GuardMarker = lock_api::GuardNoSend;
	fn lock(&self) { LOG.with(|l| l.borrow_mut().push(self as *const _ as usize)); lock_api::RawMutex::lock(&self.0) }
	fn try_lock(&self) -> bool { lock_api::RawMutex::try_lock(&self.0) }
	unsafe fn unlock(&self) { lock_api::RawMutex::unlock(&self.0) }
}

#[test]
fn owned_and_sorted_disagree_on_order() {
	let mut ms: [Mutex<i32, Rec>; 2] = [Mutex::new(0), Mutex::new(1)];
	let (lo, hi) = ms.split_at_mut(1);
	// listing order: high address first
	let owned = OwnedLockCollection::new((&mut hi[0], &mut lo[0]));
	let key = ThreadKey::get().unwrap();
	let g = owned.lock(key);
	let key = OwnedLockCollection::<(&mut Mutex<i32, Rec>, &mut Mutex<i32, Rec>)>::unlock(g);
	let order_owned = LOG.with(|l| std::mem::take(&mut *l.borrow_mut()));
	let c = owned.child();
	let sorted = BoxedLockCollection::try_new([&*c.0, &*c.1]).unwrap();
	drop(sorted.lock(key));
	let order_sorted = LOG.with(|l| std::mem::take(&mut *l.borrow_mut()));
	assert_eq!(order_owned, order_sorted, "two collections block on the same two locks in opposite orders");
}
