use happylock::collection::BoxedLockCollection;
use happylock::{Mutex, ThreadKey};
#[test]
fn new_accepts_lock_references() {
	let m = Mutex::new(0);
	// must not compile: `new` skips the duplicate check and is only for inputs that own their locks
	let c = BoxedLockCollection::new([&m, &m]);
	let key = ThreadKey::get().unwrap();
	assert!(c.try_lock(key).is_ok(), "try_lock fails with nothing held; lock() would wait for itself for ever");
}
