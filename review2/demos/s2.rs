use happylock::collection::RefLockCollection;
use happylock::mutex::Mutex;
use happylock::ThreadKey;
use std::cell::RefCell;
thread_local! { static LOG: RefCell<Vec<usize>> = const { RefCell::new(Vec::new()) }; }
struct Rec(parking_lot::RawMutex);
unsafe impl lock_api::RawMutex for Rec {
	const INIT: Self = Rec(<parking_lot::RawMutex as lock_api::RawMutex>::INIT);
	type GuardMarker = lock_api::GuardNoSend;
	fn lock(&self) { LOG.with(|l| l.borrow_mut().push(self as *const _ as usize)); lock_api::RawMutex::lock(&self.0) }
	fn try_lock(&self) -> bool { lock_api::RawMutex::try_lock(&self.0) }
	unsafe fn unlock(&self) { lock_api::RawMutex::unlock(&self.0) }
}
#[test]
fn ref_collections_agree_on_order() {
	let ms: [Mutex<i32, Rec>; 2] = [Mutex::new(0), Mutex::new(1)];
	let listed = [&ms[1], &ms[0]]; // listing order: high address first, no duplicate
	let key = ThreadKey::get().unwrap();
	let a = unsafe { RefLockCollection::new_unchecked(&listed) };
	let g = a.lock(key);
	let key = RefLockCollection::<[&Mutex<i32, Rec>; 2]>::unlock(g);
	let first = LOG.with(|l| std::mem::take(&mut *l.borrow_mut()));
	let b = RefLockCollection::try_new(&listed).unwrap();
	drop(b.lock(key));
	let second = LOG.with(|l| std::mem::take(&mut *l.borrow_mut()));
	assert_eq!(first, second, "two sorting collections over the same locks block in opposite orders");
}
