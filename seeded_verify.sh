#!/bin/bash
# usage: ./seeded_verify.sh <seeded_out dir> <name> <broken property> <check properties...>
# Confirms a seeded change independently (existing suite passes with it; the demonstration fails
# with it and passes without it) in a scratch worktree, runs the named quick checks against it,
# and stores it under /verif/seeded/<name>/.
set -u
SRC=$(realpath "$1"); NAME=$2; BROKEN=$3; shift 3
OUT=/verif/seeded/$NAME
SCR=$(mktemp -d /tmp/seedver-XXXXXX)
git -C /repo worktree add -q "$SCR/wt" HEAD || exit 3
cleanup() { git -C /repo worktree remove --force "$SCR/wt" 2>/dev/null; rm -rf "$SCR" /tmp/happysim-shadow-*; }
trap cleanup EXIT
cd "$SCR/wt"
git apply "$SRC/patch.diff" || { echo "PATCH DOES NOT APPLY"; exit 3; }
suite=$(CARGO_NET_OFFLINE=true cargo test --offline 2>&1 | grep -E "^test result" | awk '{p+=$4; f+=$6} END {print p" passed "f" failed"}')
echo "suite with change: $suite"
cp "$SRC/demo.rs" tests/seeded_demo.rs
timeout 120 cargo test --offline --test seeded_demo >"$SCR/with.log" 2>&1; rc_with=$?
git checkout -q -- src
timeout 120 cargo test --offline --test seeded_demo >"$SCR/without.log" 2>&1; rc_without=$?
echo "demo with change rc=$rc_with (expect !=0), without rc=$rc_without (expect 0)"
cd /verif
results=""
for P in "$@"; do
  out=$(VERIF_RUNS="${MUT_RUNS:-}" ./sensitivity.sh "$SRC/patch.diff" "$P" 2>&1 | grep "^\[$P")
  echo "$out"
  results="$results$out\n"
done
mkdir -p "$OUT"
cp "$SRC/patch.diff" "$SRC/demo.rs" "$OUT/"; [ -f "$SRC/notes.md" ] && cp "$SRC/notes.md" "$OUT/agent_notes.md"
python3 - "$OUT" "$BROKEN" "$suite" "$rc_with" "$rc_without" "$(printf "$results")" <<'PY'
import json,sys
out,broken,suite,rw,rwo,res=sys.argv[1:7]
meta={"breaks_property":broken,"existing_suite_with_change":suite,"demo_rc_with_change":int(rw),"demo_rc_without_change":int(rwo),
      "confirmed": suite.endswith(" 0 failed") and int(rw)!=0 and int(rwo)==0,
      "checks_run":[l for l in res.split("\n") if l.strip()],
      "what_i_ran":"seeded_verify.sh: scratch worktree of /repo HEAD, git apply patch.diff, cargo test --offline (whole suite), demo as tests/seeded_demo.rs with and without the patch, then ./sensitivity.sh patch.diff <property> (quick checks against a scratch copy with the patch)"}
json.dump(meta,open(out+"/meta.json","w"),indent=1)
print("confirmed:",meta["confirmed"])
PY
