// Demonstration for finding D9 (properties C13, C04, C09/C01), against /repo before its fix.
// Build as a bin crate depending on happylock = { path = "/repo" }.
// A retrying collection that was built by the *checked* constructor over lock references
// handed out `&mut` access to its child (child_mut / AsMut / iter_mut). Safe code could list
// a lock a second time after the duplicate check had run.
// The file compiles against both versions: if the library offers `child_mut` for reference
// members (before the fix) the inherent method is picked and a duplicate is pushed; after
// the fix only the fallback below applies and nothing can be pushed.
use happylock::collection::RetryingLockCollection;
use happylock::{Mutex, ThreadKey};

struct NoAccess;
trait Fallback {
    fn child_mut(&mut self) -> NoAccess {
        NoAccess
    }
}
impl<'a> Fallback for RetryingLockCollection<Vec<&'a Mutex<i32>>> {}
trait Push<'a> {
    fn push_dup(self, m: &'a Mutex<i32>) -> bool;
}
impl<'a, 'b> Push<'a> for &'b mut Vec<&'a Mutex<i32>> {
    fn push_dup(self, m: &'a Mutex<i32>) -> bool {
        self.push(m);
        true
    }
}
impl<'a> Push<'a> for NoAccess {
    fn push_dup(self, _: &'a Mutex<i32>) -> bool {
        false
    }
}

fn main() {
    let m = Mutex::new(1);
    let key = ThreadKey::get().unwrap();
    let mut c = RetryingLockCollection::try_new(vec![&m]).unwrap();
    let relisted = c.child_mut().push_dup(&m);
    println!("the library let safe code list the lock a second time: {}", relisted);
    // nothing is locked, yet with the duplicate try_lock fails (C13); lock() would spin for ever
    let r = c.try_lock(key);
    println!("try_lock on a collection whose only lock is free: {}", if r.is_ok() { "Ok" } else { "Err" });
    assert!(r.is_ok(), "try_lock failed although no leaf lock is held");
}
