// Demonstration for finding D6 (properties C17, C05, C02), against /repo at f2b5fb6 (before fix aff8737).
// Build as a bin crate depending on happylock = { path = "/repo" }.
// Formatting a locked Mutex with {:?} releases the holder's lock: before the fix the spawned
// thread's try_lock succeeds while the main thread still owns a guard.
use happylock::{Mutex, ThreadKey};
fn main() {
    let key = ThreadKey::get().unwrap();
    let m = Mutex::new(5);
    let guard = m.lock(key);
    let s = format!("{:?}", m); // non-acquiring operation on a held lock
    assert!(s.contains("<locked>"));
    let stolen = std::thread::scope(|sc| {
        sc.spawn(|| {
            let k = ThreadKey::get().unwrap();
            m.try_lock(k).is_ok()
        })
        .join()
        .unwrap()
    });
    println!("other thread could lock while guard alive: {}", stolen);
    drop(guard);
    assert!(!stolen, "Debug formatting released a lock held through a live guard");
}
