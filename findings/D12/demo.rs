// D12: member guards change hands across threads when the raw lock's GuardMarker is GuardSend.
// tests/ file for the library: fails (assert) before b059e7a, does not compile after it
// (`*const ()` cannot be sent between threads safely).
use happylock::collection::BoxedLockCollection;
use happylock::mutex::Mutex;
use happylock::ThreadKey;
use lock_api::{GuardSend, RawMutex};
use std::sync::atomic::{AtomicBool, Ordering};

// an ordinary test-and-set lock whose guards may be sent (like spin's, or parking_lot with `send_guard`)
pub struct Tas(AtomicBool);
unsafe impl RawMutex for Tas {
	const INIT: Self = Tas(AtomicBool::new(false));
	type GuardMarker = GuardSend;
	fn lock(&self) {
		while !self.try_lock() {
			std::thread::yield_now();
		}
	}
	fn try_lock(&self) -> bool {
		!self.0.swap(true, Ordering::Acquire)
	}
	unsafe fn unlock(&self) {
		self.0.store(false, Ordering::Release);
	}
	fn is_locked(&self) -> bool {
		self.0.load(Ordering::Relaxed)
	}
}

#[test]
fn member_guards_swapped_across_threads() {
	let a = BoxedLockCollection::new((Mutex::<i32, Tas>::new(1),));
	let b = BoxedLockCollection::new((Mutex::<i32, Tas>::new(2),));
	let key = ThreadKey::get().unwrap();
	let mut ga = a.lock(key);
	std::thread::scope(|s| {
		let lent = &mut ga.0; // &mut MutexRef<i32, Tas>: Send because Tas::GuardMarker = GuardSend
		let b = &b;
		s.spawn(move || {
			let key = ThreadKey::get().unwrap();
			let mut gb = b.lock(key);
			std::mem::swap(lent, &mut gb.0);
			// releases a's mutex (held by the main thread), returns this thread's key
			let key = BoxedLockCollection::<(Mutex<i32, Tas>,)>::unlock(gb);
			// the key is back, but the mutex this thread locked (b) is still locked
			let r = b.try_lock(key);
			assert!(r.is_ok(), "thread got its key back while the lock it acquired is still held");
		})
		.join()
		.unwrap();
	});
	drop(ga);
}
