// D11: data references escape scoped closures (tests/ file for the library; cargo test --test demo)
// On the tree before a9ffb7d all three tests compile and pass (= the hole exists). With a9ffb7d the
// first two no longer compile (fixed for Mutex / RwLock); the third still compiles: known finding D11b.
use happylock::{LockCollection, Mutex, RwLock, ThreadKey};

#[test]
fn mutex_data_escapes_scoped_lock() {
	let mut key = ThreadKey::get().unwrap();
	let m = Mutex::new(1);
	let a: &mut i32 = m.scoped_lock(&mut key, |d| d);
	let b: &mut i32 = m.scoped_lock(&mut key, |d| d);
	*a += 1; // two live &mut to the same data, no lock held
	*b += 1;
	println!("{} {}", a, b);
}

#[test]
fn rwlock_data_escapes() {
	let mut key = ThreadKey::get().unwrap();
	let m = RwLock::new(1);
	let a: &mut i32 = m.scoped_write(&mut key, |d| d);
	let b: &i32 = m.scoped_read(&mut key, |d| d);
	*a += 1;
	println!("{} {}", a, b);
}

#[test]
fn collection_data_escapes() {
	let mut key = ThreadKey::get().unwrap();
	let c = LockCollection::new((Mutex::new(1), Mutex::new(2)));
	let a = c.scoped_lock(&mut key, |d| d);
	let b = c.scoped_lock(&mut key, |d| d);
	*a.0 += 1;
	*b.0 += 1;
	println!("{} {}", a.0, b.0);
}
