// Demonstration for finding D7 (property C06), against /repo at f2b5fb6 (before fix 470280a).
// Build as a bin crate depending on happylock = { path = "/repo" }.
// Before the fix this prints: first=false second=true  (a second live key is issued)
// After the fix:               first=false second=false
use happylock::ThreadKey;
fn main() {
    let key = ThreadKey::get().unwrap();
    let first = ThreadKey::get().is_some();
    let second = ThreadKey::get().is_some();
    println!("first={} second={}", first, second);
    drop(key);
    assert!(!first && !second, "a second ThreadKey was issued while the first is alive");
}
