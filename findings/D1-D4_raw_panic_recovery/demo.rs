// Demonstration for findings D1-D4 (property C12). Build as a bin crate depending on
// happylock = { path = "/repo" } and lock_api = "0.4". An auditing raw mutex records releases
// of a lock that is not held and can be told to panic in lock / try_lock / unlock.
// Before the fixes all four asserts fail (run with an argument 1..4 to pick one); after, all pass.
use happylock::collection::{BoxedLockCollection, RetryingLockCollection};
use happylock::mutex::Mutex;
use happylock::ThreadKey;
use std::panic::{catch_unwind, AssertUnwindSafe};
use std::sync::atomic::{AtomicBool, AtomicUsize, Ordering::SeqCst};

struct Audit {
    held: AtomicBool,
    bad_unlocks: AtomicUsize,
    panic_lock: AtomicBool,
    panic_try: AtomicBool,
    panic_unlock_before: AtomicBool, // panics instead of unlocking
    panic_unlock_after_once: AtomicBool, // unlocks, then panics (once)
}
unsafe impl lock_api::RawMutex for Audit {
    #[allow(clippy::declare_interior_mutable_const)]
    const INIT: Self = Audit { held: AtomicBool::new(false), bad_unlocks: AtomicUsize::new(0), panic_lock: AtomicBool::new(false), panic_try: AtomicBool::new(false), panic_unlock_before: AtomicBool::new(false), panic_unlock_after_once: AtomicBool::new(false) };
    type GuardMarker = lock_api::GuardNoSend;
    fn lock(&self) {
        if self.panic_lock.load(SeqCst) { panic!("raw lock() panics"); }
        assert!(!self.held.swap(true, SeqCst), "demo is single threaded: lock() on a held lock would block");
    }
    fn try_lock(&self) -> bool {
        if self.panic_try.load(SeqCst) { panic!("raw try_lock() panics"); }
        !self.held.swap(true, SeqCst)
    }
    unsafe fn unlock(&self) {
        if self.panic_unlock_before.load(SeqCst) { panic!("raw unlock() panics"); }
        if !self.held.swap(false, SeqCst) { self.bad_unlocks.fetch_add(1, SeqCst); }
        if self.panic_unlock_after_once.swap(false, SeqCst) { panic!("raw unlock() panics after unlocking"); }
    }
}
type M = Mutex<u32, Audit>;
fn raw(m: &M) -> &Audit { unsafe { m.raw() } }

fn d1() -> bool {
    // the blocking acquisition of the first member panics: nothing is held, nothing may be released
    let locks = [M::new(0), M::new(1)];
    raw(&locks[0]).panic_lock.store(true, SeqCst);
    let c = RetryingLockCollection::new_ref(&locks);
    let r = catch_unwind(AssertUnwindSafe(|| { let k = ThreadKey::get().unwrap(); drop(c.lock(k)); }));
    assert!(r.is_err());
    println!("D1: releases of a lock that is not held: {}", raw(&locks[0]).bad_unlocks.load(SeqCst));
    raw(&locks[0]).bad_unlocks.load(SeqCst) == 0
}
fn d2() -> bool {
    // member 0 locked (blocking), member 1 try-locked, try on member 2 panics: member 1 must be released
    let locks = [M::new(0), M::new(1), M::new(2)];
    raw(&locks[2]).panic_try.store(true, SeqCst);
    let c = RetryingLockCollection::new_ref(&locks);
    let r = catch_unwind(AssertUnwindSafe(|| { let k = ThreadKey::get().unwrap(); drop(c.lock(k)); }));
    assert!(r.is_err());
    println!("D2: member 0 still held: {}  member 1 still held: {}", raw(&locks[0]).held.load(SeqCst), raw(&locks[1]).held.load(SeqCst));
    !raw(&locks[0]).held.load(SeqCst) && !raw(&locks[1]).held.load(SeqCst)
}
fn d3() -> bool {
    // try_lock on [a, b, c] with c busy: rollback unlocks a (panics) and must still unlock b
    let locks = [M::new(0), M::new(1), M::new(2)];
    raw(&locks[0]).panic_unlock_before.store(true, SeqCst);
    assert!(lock_api::RawMutex::try_lock(raw(&locks[2]))); // c is busy
    let c = BoxedLockCollection::new_ref(&locks); // one array: address order == index order
    let r = catch_unwind(AssertUnwindSafe(|| { let k = ThreadKey::get().unwrap(); let _ = c.try_lock(k); }));
    assert!(r.is_err());
    println!("D3: member b still held after the failed try_lock unwound: {}", raw(&locks[1]).held.load(SeqCst));
    !raw(&locks[1]).held.load(SeqCst)
}
fn d4() -> bool {
    // try_lock on [a, b] with b busy: rollback unlocks a, which panics after unlocking;
    // the unwind handler must not unlock a a second time
    let locks = [M::new(0), M::new(1)];
    raw(&locks[0]).panic_unlock_after_once.store(true, SeqCst);
    assert!(lock_api::RawMutex::try_lock(raw(&locks[1]))); // b is busy
    let c = BoxedLockCollection::new_ref(&locks);
    let r = catch_unwind(AssertUnwindSafe(|| { let k = ThreadKey::get().unwrap(); let _ = c.try_lock(k); }));
    assert!(r.is_err());
    println!("D4: releases of a lock that is not held: {}", raw(&locks[0]).bad_unlocks.load(SeqCst));
    raw(&locks[0]).bad_unlocks.load(SeqCst) == 0
}
fn main() {
    std::panic::set_hook(Box::new(|_| {}));
    let which: Option<u32> = std::env::args().nth(1).and_then(|s| s.parse().ok());
    let mut ok = true;
    for (i, f) in [d1 as fn() -> bool, d2, d3, d4].iter().enumerate() {
        if which.is_none() || which == Some(i as u32 + 1) {
            let r = std::thread::spawn(*f).join().unwrap();
            println!("  D{} {}", i + 1, if r { "ok" } else { "DEFECT" });
            ok &= r;
        }
    }
    std::process::exit(if ok { 0 } else { 1 });
}
