// Demonstration for finding D5 (property C10), against /repo before the fix.
// Build as a bin crate depending on happylock = { path = "/repo" }.
// A panic inside the closure of a scoped call on a collection (or on an outer Poisonable)
// unwinds while an exclusive hold on the contained Poisonable is live, yet the contained
// Poisonable is not poisoned.
use happylock::{LockCollection, Mutex, Poisonable, ThreadKey};
use std::panic::{catch_unwind, AssertUnwindSafe};
fn main() {
    std::panic::set_hook(Box::new(|_| {}));
    let mut key = ThreadKey::get().unwrap();
    // 1. collection.scoped_lock
    let c = LockCollection::new((Poisonable::new(Mutex::new(1)), Mutex::new(2)));
    let r = catch_unwind(AssertUnwindSafe(|| c.scoped_lock(&mut key, |_d| panic!("user panic inside hold"))));
    assert!(r.is_err());
    let via_collection = c.child().0.is_poisoned();
    // 2. outer Poisonable's scoped_lock with a Poisonable nested inside
    let pp = Poisonable::new(LockCollection::new([Poisonable::new(Mutex::new(3))]));
    let r = catch_unwind(AssertUnwindSafe(|| pp.scoped_lock(&mut key, |_d| panic!("user panic inside hold"))));
    assert!(r.is_err());
    let outer = pp.is_poisoned();
    let inner = match pp.into_child() {
        Ok(c) => c.child()[0].is_poisoned(),
        Err(e) => e.into_inner().child()[0].is_poisoned(),
    };
    println!("member poisoned via collection.scoped_lock: {}", via_collection);
    println!("outer poisoned: {}  nested poisoned via outer.scoped_lock: {}", outer, inner);
    assert!(via_collection && outer && inner, "a panic during an exclusive hold did not poison a contained Poisonable");
}
