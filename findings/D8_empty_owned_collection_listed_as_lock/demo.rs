// Demonstration for finding D8 (property C07), against /repo before its fix.
// Build as a bin crate depending on happylock = { path = "/repo" }.
// An empty OwnedLockCollection lists *itself* as a lock. (a) A zero-sized one shares its
// address with the neighbouring lock, so the checked constructors see a "duplicate" in an
// input in which no lock is reachable twice; (b) the same happens when one empty owned
// collection is referenced twice.
use happylock::collection::{OwnedLockCollection, RefLockCollection, RetryingLockCollection};
use happylock::{LockCollection, Mutex, ThreadKey};
fn main() {
    let pair = (OwnedLockCollection::new([] as [Mutex<i32>; 0]), Mutex::new(1));
    let a = LockCollection::try_new(&pair).is_some();
    let b = RefLockCollection::try_new(&pair).is_some();
    let c = RetryingLockCollection::try_new(&pair).is_some();
    println!("(empty owned collection, mutex): boxed={} ref={} retrying={}", a, b, c);
    let empty = OwnedLockCollection::new(Vec::<Mutex<i32>>::new());
    let d = LockCollection::try_new([&empty, &empty]).is_some();
    println!("[&empty, &empty]: boxed={}", d);
    assert!(a && b && c && d, "a checked constructor rejected an input in which no lock is reachable twice");
    // and the accepted collection is usable
    let key = ThreadKey::get().unwrap();
    let coll = LockCollection::try_new(&pair).unwrap();
    let g = coll.lock(key);
    assert_eq!(*g.1, 1);
}
