//! Capability probes: what else the library's public types let *safe* code do with a guard,
//! a key or a constructor, besides the calls the interpreter makes anyway.
//!
//! Whether a type offers a capability (`Default`, `Clone`, `DerefMut`, `Send`, an inherent
//! constructor for some input type, ...) is decided by the compiler. An inherent method whose
//! impl block carries the bound shadows a blanket trait method without it, which turns that
//! verdict into a runtime value *for concrete types* (the trick does not work through generic
//! code, so every probe below is instantiated at a concrete library type). Where the
//! capability exists the simulated program goes on to use it, and the ordinary monitors judge
//! what happens; where it does not, the probe is a counted no-op.

use crate::pay::Pay;
use std::marker::PhantomData;
use std::ops::DerefMut;

pub struct Cap<X>(pub PhantomData<X>);

pub fn cap<X>() -> Cap<X> {
    Cap(PhantomData)
}
pub fn cap_of<X>(_: &X) -> Cap<X> {
    Cap(PhantomData)
}

/// the verdicts when the type does not have the capability
pub trait CapNo<X> {
    fn steal(&self, _: &mut X) -> Option<X> {
        None
    }
    fn cloned(&self, _: &X) -> Option<X> {
        None
    }
    fn has_deref_mut(&self) -> bool {
        false
    }
    fn deref_mut_pay<'x>(&self, _: &'x mut X) -> Option<&'x mut Pay> {
        None
    }
    fn has_as_mut(&self) -> bool {
        false
    }
    fn as_mut_pay<'x>(&self, _: &'x mut X) -> Option<&'x mut Pay> {
        None
    }
    fn is_send(&self) -> bool {
        false
    }
    fn boxed_send(&self, x: X) -> Result<Box<dyn std::any::Any + Send>, X> {
        Err(x)
    }
    fn may_cross_threads(&self) -> bool {
        false
    }
    fn into_pieces<'a>(&self, x: X) -> Result<Vec<Box<dyn Opaque + 'a>>, X>
    where
        X: 'a,
    {
        Err(x)
    }
    fn boxed_opaque<'a>(&self, x: X) -> Result<Box<dyn Opaque + Send + 'a>, X>
    where
        X: 'a,
    {
        Err(x)
    }
}
impl<X> CapNo<X> for Cap<X> {}

impl<X: Default> Cap<X> {
    /// replace the value by an empty one and keep the original
    pub fn steal(&self, x: &mut X) -> Option<X> {
        Some(std::mem::take(x))
    }
}
impl<X: Clone> Cap<X> {
    pub fn cloned(&self, x: &X) -> Option<X> {
        Some(x.clone())
    }
}
impl<X: DerefMut<Target = Pay>> Cap<X> {
    pub fn has_deref_mut(&self) -> bool {
        true
    }
    pub fn deref_mut_pay<'x>(&self, x: &'x mut X) -> Option<&'x mut Pay> {
        Some(&mut **x)
    }
}
impl<X: AsMut<Pay>> Cap<X> {
    pub fn has_as_mut(&self) -> bool {
        true
    }
    pub fn as_mut_pay<'x>(&self, x: &'x mut X) -> Option<&'x mut Pay> {
        Some(x.as_mut())
    }
}
impl<X: Send> Cap<X> {
    /// the type may cross threads (no `'static` demanded)
    pub fn may_cross_threads(&self) -> bool {
        true
    }
    pub fn boxed_opaque<'a>(&self, x: X) -> Result<Box<dyn Opaque + Send + 'a>, X>
    where
        X: 'a,
    {
        Ok(Box::new(x))
    }
}
impl<X: Send + 'static> Cap<X> {
    pub fn is_send(&self) -> bool {
        true
    }
    pub fn boxed_send(&self, x: X) -> Result<Box<dyn std::any::Any + Send>, X> {
        Ok(Box::new(x))
    }
}

thread_local! {
    /// set while the interpreter resolves a position for `BodyOp::AbuseShared`: the leaf-level
    /// accessors of shared guards then try to get more out of the guard than a shared reference
    pub static ABUSE: std::cell::Cell<bool> = const { std::cell::Cell::new(false) };
    /// (probes made, capabilities found) on this thread
    pub static ABUSE_STATS: std::cell::Cell<(u64, u64)> = const { std::cell::Cell::new((0, 0)) };
}

thread_local! {
    /// set while the interpreter resolves a position for LendGuard / SwapLent: the leaf-level
    /// accessors then report where the member guard lives, if its type may cross threads
    pub static LEND: std::cell::Cell<bool> = const { std::cell::Cell::new(false) };
    /// (address of the member guard, type tag)
    pub static LENT: std::cell::Cell<Option<(usize, u8)>> = const { std::cell::Cell::new(None) };
}
pub fn lending() -> bool {
    LEND.with(|a| a.get())
}
pub fn note_lent(ptr: usize, tag: u8) {
    LENT.with(|l| l.set(Some((ptr, tag))));
}

/// `&mut guard` of a member may be handed to another thread exactly if the guard type is Send
#[macro_export]
macro_rules! maybe_lend {
    ($g:expr, $ty:ty, $tag:expr) => {{
        #[allow(unused_imports)]
        use $crate::caps::CapNo as _;
        if $crate::caps::lending() && $crate::caps::cap::<$ty>().may_cross_threads() {
            $crate::caps::note_lent($g as *mut $ty as usize, $tag);
        }
    }};
}

thread_local! {
    /// set while the interpreter resolves a position for KeepLockRef: the leaf-level accessors
    /// then ask the member guard for a reference to the lock it holds
    pub static REFLECT: std::cell::Cell<bool> = const { std::cell::Cell::new(false) };
    /// (address of the lock, it is an RwLock)
    pub static REFLECTED: std::cell::Cell<Option<(usize, bool)>> = const { std::cell::Cell::new(None) };
}
pub fn reflecting() -> bool {
    REFLECT.with(|a| a.get())
}

pub fn abusing() -> bool {
    ABUSE.with(|a| a.get())
}
pub fn abuse_note(found: bool) {
    ABUSE_STATS.with(|s| {
        let (a, b) = s.get();
        s.set((a + 1, b + found as u64));
    });
}

/// anything, kept alive and dropped later
pub trait Opaque {}
impl<T> Opaque for T {}

/// what a shared guard of a leaf really gives access to when safe code asks for more
#[macro_export]
macro_rules! shared_leaf_access {
    ($r:expr, $ty:ty) => {{
        #[allow(unused_imports)]
        use $crate::caps::CapNo as _;
        let c = $crate::caps::cap::<$ty>();
        if $crate::caps::abusing() {
            // a clone that is dropped again must leave the hold of the original alone
            let cl = c.cloned(&*$r);
            $crate::caps::abuse_note(cl.is_some());
            drop(cl);
            $crate::caps::abuse_note(c.has_deref_mut() || c.has_as_mut());
        }
        if $crate::caps::abusing() && c.has_deref_mut() {
            $crate::shape::PayRef::Mut(c.deref_mut_pay($r).unwrap())
        } else if $crate::caps::abusing() && c.has_as_mut() {
            $crate::shape::PayRef::Mut(c.as_mut_pay($r).unwrap())
        } else {
            $crate::shape::PayRef::Shared(&**$r)
        }
    }};
}

/// bound probes on a pair (collection type, what is reached through it)
pub struct Bound<C, T>(pub PhantomData<(C, T)>);
pub fn bound<C, T>() -> Bound<C, T> {
    Bound(PhantomData)
}
pub trait BoundNo<C, T> {
    fn as_mut_of<'x>(&self, _: &'x mut C) -> Option<&'x mut T> {
        None
    }
    fn extend_with(&self, _: &mut C, x: T) -> Result<(), T> {
        Err(x)
    }
    fn first_mut_of<'x>(&self, _: &'x mut C) -> Option<Option<&'x mut T>> {
        None
    }
    fn implements_extend(&self) -> bool {
        false
    }
    fn extend_from(&self, _: &mut C, _: &mut dyn Iterator<Item = T>) -> bool {
        false
    }
    fn implements_from(&self) -> bool {
        false
    }
    fn implements_from_iter(&self) -> bool {
        false
    }
    fn implements_as_ref(&self) -> bool {
        false
    }
    fn as_ref_of<'x>(&self, _: &'x C) -> Option<&'x T> {
        None
    }
    fn iter_shared_of<'x>(&self, _: &'x C) -> Option<Vec<&'x T>> {
        None
    }
}
impl<C, T> BoundNo<C, T> for Bound<C, T> {}
impl<C: AsMut<T>, T> Bound<C, T> {
    pub fn as_mut_of<'x>(&self, c: &'x mut C) -> Option<&'x mut T> {
        Some(c.as_mut())
    }
}
impl<C: Extend<T>, T> Bound<C, T> {
    pub fn extend_with(&self, c: &mut C, x: T) -> Result<(), T> {
        c.extend(std::iter::once(x));
        Ok(())
    }
    pub fn implements_extend(&self) -> bool {
        true
    }
    pub fn extend_from(&self, c: &mut C, it: &mut dyn Iterator<Item = T>) -> bool {
        c.extend(it);
        true
    }
}
impl<C, T> Bound<C, T>
where
    for<'x> &'x mut C: IntoIterator<Item = &'x mut T>,
{
    /// Some(first element) if `&mut C` can be iterated
    pub fn first_mut_of<'x>(&self, c: &'x mut C) -> Option<Option<&'x mut T>> {
        Some(c.into_iter().next())
    }
}
impl<C: From<T>, T> Bound<C, T> {
    pub fn implements_from(&self) -> bool {
        true
    }
}
impl<C: FromIterator<T>, T> Bound<C, T> {
    pub fn implements_from_iter(&self) -> bool {
        true
    }
}
impl<C: AsRef<T>, T> Bound<C, T> {
    pub fn implements_as_ref(&self) -> bool {
        true
    }
}
impl<C: AsRef<T>, T> Bound<C, T> {
    pub fn as_ref_of<'x>(&self, c: &'x C) -> Option<&'x T> {
        Some(c.as_ref())
    }
}
impl<C, T> Bound<C, T>
where
    for<'x> &'x C: IntoIterator<Item = &'x T>,
{
    pub fn iter_shared_of<'x>(&self, c: &'x C) -> Option<Vec<&'x T>> {
        Some(c.into_iter().collect())
    }
}
impl<X: IntoIterator> Cap<X> {
    /// consume the value through its by-value iterator, keep every item, let the iterator go
    pub fn into_pieces<'a>(&self, x: X) -> Result<Vec<Box<dyn Opaque + 'a>>, X>
    where
        X: 'a,
        X::Item: 'a,
    {
        let mut it = x.into_iter();
        let mut items: Vec<Box<dyn Opaque + 'a>> = Vec::new();
        for i in it.by_ref() {
            items.push(Box::new(i));
        }
        drop(it);
        Ok(items)
    }
}
