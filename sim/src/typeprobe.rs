//! Static guard for the second sentence of C07 (outside the simulation family; see DESIGN
//! §13): which types the *compiler* accepts as `OwnedLockable`, i.e. as input of the
//! constructors that skip the duplicate check (`new`, `new_ref`). A trait-resolution probe
//! (inherent method with the bound shadows a blanket trait method without it) turns the
//! compile-time verdict for each corpus type into a runtime boolean.

use crate::shape::*;
use happylock::collection::{BoxedLockCollection, OwnedLockCollection, RefLockCollection, RetryingLockCollection};
use happylock::lockable::OwnedLockable;
use happylock::poisonable::Poisonable;
use std::marker::PhantomData;

pub struct Probe<T>(pub PhantomData<T>);
pub trait NotOwned {
    fn owned(&self) -> bool {
        false
    }
}
impl<T> NotOwned for Probe<T> {}
impl<T: OwnedLockable> Probe<T> {
    pub fn owned(&self) -> bool {
        true
    }
}

macro_rules! verdicts {
    ($( $exp:literal : $t:ty ),* $(,)?) => {
        vec![ $( (stringify!($t), Probe::<$t>(PhantomData).owned(), $exp) ),* ]
    };
}

/// every static row: (what, compiler's verdict, expected verdict, text)
pub fn all_verdicts() -> Vec<(String, bool, bool, String)> {
    let mut v = Vec::new();
    for (ty, got, exp) in owned_lockable_verdicts() {
        let detail = format!("the compiler {} `{}` as OwnedLockable (input of the constructors that skip the duplicate check), expected it to be {}", if got { "accepts" } else { "rejects" }, ty, if exp { "accepted" } else { "rejected" });
        v.push((ty.to_string(), got, exp, detail));
    }
    for (what, got, exp) in constructor_verdicts() {
        // the statement names `new` and `new_ref`; conversions (From, FromIterator) could check at
        // run time and are listed for information only
        if what.contains(": From") {
            continue;
        }
        let detail = format!("`{}` is {} by the compiler, expected it to be {}: the constructors and conversions that skip the duplicate check must only take inputs that own their locks", what, if got { "accepted" } else { "rejected" }, if exp { "accepted" } else { "rejected" });
        v.push((what, got, exp, detail));
    }
    v
}

/// (type, compiler's verdict, expected verdict)
pub fn owned_lockable_verdicts() -> Vec<(&'static str, bool, bool)> {
    verdicts![
        // inputs that merely refer to locks: never acceptable to new / new_ref
        false: &'static M,
        false: &'static R,
        false: &'static Leaf,
        false: [&'static M; 2],
        false: (&'static M, &'static M),
        false: (M, &'static M),
        false: Vec<&'static M>,
        false: Box<[&'static R]>,
        false: Poisonable<&'static M>,
        false: BoxedLockCollection<&'static M>,
        false: BoxedLockCollection<[&'static M; 2]>,
        false: BoxedLockCollection<&'static [M; 2]>,
        false: (BoxedLockCollection<&'static [M; 2]>, BoxedLockCollection<&'static [M; 2]>),
        false: RefLockCollection<'static, [M; 2]>,
        false: RefLockCollection<'static, [&'static M; 2]>,
        false: RetryingLockCollection<&'static M>,
        false: RetryingLockCollection<&'static [M; 2]>,
        false: OwnedLockCollection<&'static M>,
        false: Poisonable<BoxedLockCollection<&'static M>>,
        false: Node,
        false: CN,
        false: &'static CML,
        // shared-ownership pointers: two clones reach the same lock
        false: std::sync::Arc<M>,
        false: std::rc::Rc<R>,
        false: [std::sync::Arc<M>; 2],
        false: Vec<std::sync::Arc<R>>,
        false: (std::sync::Arc<M>, std::sync::Arc<M>),
        false: &'static std::sync::Arc<M>,
        false: Poisonable<std::sync::Arc<M>>,
        false: BoxedLockCollection<Vec<std::sync::Arc<M>>>,
        // a mutable reference is only as owned as what it points to
        false: &'static mut &'static M,
        false: &'static mut [&'static M; 2],
        false: &'static mut Vec<&'static R>,
        false: &'static mut BoxedLockCollection<&'static M>,
        false: &'static mut RefLockCollection<'static, [M; 2]>,
        false: (&'static mut &'static M, &'static mut &'static M),
        false: [&'static mut Poisonable<&'static M>; 2],
        // inputs that own their locks
        true: M,
        true: R,
        true: Leaf,
        true: Poisonable<M>,
        true: Poisonable<Poisonable<R>>,
        true: [M; 2],
        true: (M, R),
        true: Vec<M>,
        true: Box<[R]>,
        true: &'static mut M,
        true: &'static mut [M; 2],
        true: &'static mut Poisonable<R>,
        true: &'static mut OwnedLockCollection<Vec<M>>,
        true: CML,
        true: BoxedLockCollection<[M; 2]>,
        true: RetryingLockCollection<(M,)>,
        true: OwnedLockCollection<Vec<M>>,
        true: Poisonable<OwnedLockCollection<Vec<M>>>,
    ]
}

// ---------------------------------------------------------------------------------------
// which *constructors and conversions* the compiler accepts for inputs that merely refer to
// locks. `Type::new(x)` resolves to the library's inherent constructor when its impl block's
// bounds hold for the input type, and to the fallback trait below otherwise.

pub struct Rejected;
pub trait Verdict {
    fn accepted(&self) -> bool;
}
impl Verdict for Rejected {
    fn accepted(&self) -> bool {
        false
    }
}
macro_rules! accepted_types {
    ($($t:ident),*) => { $( impl<X> Verdict for $t<X> { fn accepted(&self) -> bool { true } } )* };
}
accepted_types!(BoxedLockCollection, RetryingLockCollection, OwnedLockCollection);
impl<X> Verdict for RefLockCollection<'_, X> {
    fn accepted(&self) -> bool {
        true
    }
}

pub trait NewFallback<X>: Sized {
    fn new(_: X) -> Rejected {
        Rejected
    }
}
impl<X> NewFallback<X> for BoxedLockCollection<X> {}
impl<X> NewFallback<X> for RetryingLockCollection<X> {}
impl<X> NewFallback<X> for OwnedLockCollection<X> {}
pub trait NewOfRefFallback<'a, X: 'a>: Sized {
    fn new(_: &'a X) -> Rejected {
        Rejected
    }
}
impl<'a, X: 'a> NewOfRefFallback<'a, X> for RefLockCollection<'a, X> {}
pub trait NewRefFallback<'a, X: 'a>: Sized {
    fn new_ref(_: &'a X) -> Rejected {
        Rejected
    }
}
impl<'a, X: 'a> NewRefFallback<'a, X> for BoxedLockCollection<&'a X> {}
impl<'a, X: 'a> NewRefFallback<'a, X> for RetryingLockCollection<&'a X> {}

fn leak_m(lid: usize) -> &'static M {
    Box::leak(Box::new(M::new(crate::pay::Pay::new(lid, 0))))
}

/// (what, compiler's verdict, expected verdict)
pub fn constructor_verdicts() -> Vec<(String, bool, bool)> {
    #[allow(unused_imports)]
    use crate::caps::BoundNo as _;
    use crate::caps::bound;
    let mut v: Vec<(String, bool, bool)> = Vec::new();
    let m = leak_m(0);
    type Refs = [&'static M; 2];
    type VRefs = Vec<&'static M>;
    let pair = || -> Refs { [m, m] };
    let pair_static: &'static Refs = Box::leak(Box::new(pair()));
    macro_rules! row {
        ($what:expr, $got:expr, $exp:expr) => {
            v.push(($what.to_string(), $got, $exp))
        };
    }
    // the constructors that skip the duplicate check, given two references to one lock
    row!("BoxedLockCollection::<[&M; 2]>::new", BoxedLockCollection::<Refs>::new(pair()).accepted(), false);
    row!("RetryingLockCollection::<[&M; 2]>::new", RetryingLockCollection::<Refs>::new(pair()).accepted(), false);
    row!("OwnedLockCollection::<[&M; 2]>::new", OwnedLockCollection::<Refs>::new(pair()).accepted(), false);
    row!("RefLockCollection::<[&M; 2]>::new", RefLockCollection::<Refs>::new(pair_static).accepted(), false);
    row!("BoxedLockCollection::<&[&M; 2]>::new_ref", BoxedLockCollection::<&'static Refs>::new_ref(pair_static).accepted(), false);
    row!("RetryingLockCollection::<&[&M; 2]>::new_ref", RetryingLockCollection::<&'static Refs>::new_ref(pair_static).accepted(), false);
    row!("BoxedLockCollection::<Vec<&M>>::new", BoxedLockCollection::<VRefs>::new(vec![m, m]).accepted(), false);
    row!("RetryingLockCollection::<Vec<&M>>::new", RetryingLockCollection::<VRefs>::new(vec![m, m]).accepted(), false);
    // conversions that build a collection without a check
    row!("BoxedLockCollection<[&M; 2]>: From<[&M; 2]>", bound::<BoxedLockCollection<Refs>, Refs>().implements_from(), false);
    row!("RetryingLockCollection<[&M; 2]>: From<[&M; 2]>", bound::<RetryingLockCollection<Refs>, Refs>().implements_from(), false);
    row!("OwnedLockCollection<[&M; 2]>: From<[&M; 2]>", bound::<OwnedLockCollection<Refs>, Refs>().implements_from(), false);
    row!("RefLockCollection<[&M; 2]>: From<&[&M; 2]>", bound::<RefLockCollection<'static, Refs>, &'static Refs>().implements_from(), false);
    row!("BoxedLockCollection<Vec<&M>>: FromIterator<&M>", bound::<BoxedLockCollection<VRefs>, &'static M>().implements_from_iter(), false);
    row!("RetryingLockCollection<Vec<&M>>: FromIterator<&M>", bound::<RetryingLockCollection<VRefs>, &'static M>().implements_from_iter(), false);
    row!("OwnedLockCollection<Vec<&M>>: FromIterator<&M>", bound::<OwnedLockCollection<VRefs>, &'static M>().implements_from_iter(), false);
    // positive controls: the same probes say yes for inputs that own their locks
    let own = || -> [M; 2] { [M::new(crate::pay::Pay::new(0, 0)), M::new(crate::pay::Pay::new(1, 0))] };
    row!("BoxedLockCollection::<[M; 2]>::new", BoxedLockCollection::<[M; 2]>::new(own()).accepted(), true);
    row!("RetryingLockCollection::<[M; 2]>::new", RetryingLockCollection::<[M; 2]>::new(own()).accepted(), true);
    row!("OwnedLockCollection::<[M; 2]>::new", OwnedLockCollection::<[M; 2]>::new(own()).accepted(), true);
    let own_static: &'static [M; 2] = Box::leak(Box::new(own()));
    row!("RefLockCollection::<[M; 2]>::new", RefLockCollection::<[M; 2]>::new(own_static).accepted(), true);
    row!("BoxedLockCollection::<&[M; 2]>::new_ref", BoxedLockCollection::<&'static [M; 2]>::new_ref(own_static).accepted(), true);
    row!("BoxedLockCollection<[M; 2]>: From<[M; 2]>", bound::<BoxedLockCollection<[M; 2]>, [M; 2]>().implements_from(), true);
    row!("OwnedLockCollection<Vec<M>>: FromIterator<M>", bound::<OwnedLockCollection<Vec<M>>, M>().implements_from_iter(), true);
    v
}
