//! Static guard for the second sentence of C07 (outside the simulation family; see DESIGN
//! §13): which types the *compiler* accepts as `OwnedLockable`, i.e. as input of the
//! constructors that skip the duplicate check (`new`, `new_ref`). A trait-resolution probe
//! (inherent method with the bound shadows a blanket trait method without it) turns the
//! compile-time verdict for each corpus type into a runtime boolean.

use crate::shape::*;
use happylock::collection::{BoxedLockCollection, OwnedLockCollection, RefLockCollection, RetryingLockCollection};
use happylock::lockable::OwnedLockable;
use happylock::poisonable::Poisonable;
use std::marker::PhantomData;

pub struct Probe<T>(pub PhantomData<T>);
pub trait NotOwned {
    fn owned(&self) -> bool {
        false
    }
}
impl<T> NotOwned for Probe<T> {}
impl<T: OwnedLockable> Probe<T> {
    pub fn owned(&self) -> bool {
        true
    }
}

macro_rules! verdicts {
    ($( $exp:literal : $t:ty ),* $(,)?) => {
        vec![ $( (stringify!($t), Probe::<$t>(PhantomData).owned(), $exp) ),* ]
    };
}

/// (type, compiler's verdict, expected verdict)
pub fn owned_lockable_verdicts() -> Vec<(&'static str, bool, bool)> {
    verdicts![
        // inputs that merely refer to locks: never acceptable to new / new_ref
        false: &'static M,
        false: &'static R,
        false: &'static Leaf,
        false: [&'static M; 2],
        false: (&'static M, &'static M),
        false: (M, &'static M),
        false: Vec<&'static M>,
        false: Box<[&'static R]>,
        false: Poisonable<&'static M>,
        false: BoxedLockCollection<&'static M>,
        false: BoxedLockCollection<[&'static M; 2]>,
        false: BoxedLockCollection<&'static [M; 2]>,
        false: (BoxedLockCollection<&'static [M; 2]>, BoxedLockCollection<&'static [M; 2]>),
        false: RefLockCollection<'static, [M; 2]>,
        false: RefLockCollection<'static, [&'static M; 2]>,
        false: RetryingLockCollection<&'static M>,
        false: RetryingLockCollection<&'static [M; 2]>,
        false: OwnedLockCollection<&'static M>,
        false: Poisonable<BoxedLockCollection<&'static M>>,
        false: Node,
        false: CN,
        false: &'static CML,
        // a mutable reference is only as owned as what it points to
        false: &'static mut &'static M,
        false: &'static mut [&'static M; 2],
        false: &'static mut Vec<&'static R>,
        false: &'static mut BoxedLockCollection<&'static M>,
        false: &'static mut RefLockCollection<'static, [M; 2]>,
        false: (&'static mut &'static M, &'static mut &'static M),
        false: [&'static mut Poisonable<&'static M>; 2],
        // inputs that own their locks
        true: M,
        true: R,
        true: Leaf,
        true: Poisonable<M>,
        true: Poisonable<Poisonable<R>>,
        true: [M; 2],
        true: (M, R),
        true: Vec<M>,
        true: Box<[R]>,
        true: &'static mut M,
        true: &'static mut [M; 2],
        true: &'static mut Poisonable<R>,
        true: &'static mut OwnedLockCollection<Vec<M>>,
        true: CML,
        true: BoxedLockCollection<[M; 2]>,
        true: RetryingLockCollection<(M,)>,
        true: OwnedLockCollection<Vec<M>>,
        true: Poisonable<OwnedLockCollection<Vec<M>>>,
    ]
}
