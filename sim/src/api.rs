//! Uniform view of happylock's acquisition APIs over every target type (pure delegation),
//! and `Held`: a uniform way to reach payloads through whatever guard / data value the
//! library hands out.

use crate::pay::Pay;
use crate::raw::{SimRawMutex, SimRawRwLock};
use crate::shape::*;
use happylock::collection::{BoxedLockCollection, LockGuard, RefLockCollection, RetryingLockCollection};
use happylock::mutex::{MutexGuard, MutexRef};
use happylock::poisonable::{PoisonError, PoisonGuard, PoisonRef, PoisonResult, Poisonable, TryLockPoisonableError};
use happylock::rwlock::{RwLockReadGuard, RwLockReadRef, RwLockWriteGuard, RwLockWriteRef};
use happylock::{Keyable, ThreadKey};

pub trait Held {
    fn visit<'x>(&'x mut self, path: &[u8], layers: &mut Vec<bool>) -> PayRef<'x>;
}

fn at_leaf(path: &[u8]) {
    assert!(path.is_empty(), "happysim: path continues below a single lock");
}

impl Held for MutexGuard<'_, Pay, SimRawMutex> {
    fn visit<'x>(&'x mut self, path: &[u8], _: &mut Vec<bool>) -> PayRef<'x> {
        at_leaf(path);
        PayRef::Mut(&mut **self)
    }
}
impl Held for MutexRef<'_, Pay, SimRawMutex> {
    fn visit<'x>(&'x mut self, path: &[u8], _: &mut Vec<bool>) -> PayRef<'x> {
        at_leaf(path);
        PayRef::Mut(&mut **self)
    }
}
impl Held for RwLockWriteGuard<'_, Pay, SimRawRwLock> {
    fn visit<'x>(&'x mut self, path: &[u8], _: &mut Vec<bool>) -> PayRef<'x> {
        at_leaf(path);
        PayRef::Mut(&mut **self)
    }
}
impl Held for RwLockWriteRef<'_, Pay, SimRawRwLock> {
    fn visit<'x>(&'x mut self, path: &[u8], _: &mut Vec<bool>) -> PayRef<'x> {
        at_leaf(path);
        PayRef::Mut(&mut **self)
    }
}
impl Held for RwLockReadGuard<'_, Pay, SimRawRwLock> {
    fn visit<'x>(&'x mut self, path: &[u8], _: &mut Vec<bool>) -> PayRef<'x> {
        at_leaf(path);
        PayRef::Shared(&**self)
    }
}
impl Held for RwLockReadRef<'_, Pay, SimRawRwLock> {
    fn visit<'x>(&'x mut self, path: &[u8], _: &mut Vec<bool>) -> PayRef<'x> {
        at_leaf(path);
        PayRef::Shared(&**self)
    }
}
impl Held for &mut Pay {
    fn visit<'x>(&'x mut self, path: &[u8], _: &mut Vec<bool>) -> PayRef<'x> {
        at_leaf(path);
        PayRef::Mut(&mut **self)
    }
}
impl Held for &Pay {
    fn visit<'x>(&'x mut self, path: &[u8], _: &mut Vec<bool>) -> PayRef<'x> {
        at_leaf(path);
        PayRef::Shared(&**self)
    }
}
impl<G: Held> Held for LockGuard<G> {
    fn visit<'x>(&'x mut self, path: &[u8], layers: &mut Vec<bool>) -> PayRef<'x> {
        (**self).visit(path, layers)
    }
}
impl<G: Held> Held for PoisonGuard<'_, G> {
    fn visit<'x>(&'x mut self, path: &[u8], layers: &mut Vec<bool>) -> PayRef<'x> {
        self.as_mut().visit(path, layers)
    }
}
impl<G: Held> Held for PoisonRef<'_, G> {
    fn visit<'x>(&'x mut self, path: &[u8], layers: &mut Vec<bool>) -> PayRef<'x> {
        (**self).visit(path, layers)
    }
}
impl<X: Held> Held for Result<X, PoisonError<X>> {
    fn visit<'x>(&'x mut self, path: &[u8], layers: &mut Vec<bool>) -> PayRef<'x> {
        match self {
            Ok(x) => {
                layers.push(false);
                x.visit(path, layers)
            }
            Err(e) => {
                layers.push(true);
                e.get_mut().visit(path, layers)
            }
        }
    }
}
impl<F: Fam> Held for ContAcc<NodeAcc<'_, F>> {
    fn visit<'x>(&'x mut self, path: &[u8], layers: &mut Vec<bool>) -> PayRef<'x> {
        ContAcc::<NodeAcc<'_, F>>::visit(self, path, layers)
    }
}
impl<F: Fam> Held for ContAcc<LeafAcc<'_, F>> {
    fn visit<'x>(&'x mut self, path: &[u8], layers: &mut Vec<bool>) -> PayRef<'x> {
        self.visit_leaf(path, layers)
    }
}

/// stands in for the read side of targets that cannot be read-locked
pub enum NoRead {}
impl Held for NoRead {
    fn visit<'x>(&'x mut self, _: &[u8], _: &mut Vec<bool>) -> PayRef<'x> {
        match *self {}
    }
}

pub trait TargetApi {
    type G<'a>: Held
    where
        Self: 'a;
    type Rg<'a>: Held
    where
        Self: 'a;
    type D<'a>: Held
    where
        Self: 'a;
    type Rd<'a>: Held
    where
        Self: 'a;
    fn lock<'a>(&'a self, key: ThreadKey) -> Self::G<'a>;
    fn try_lock<'a>(&'a self, key: ThreadKey) -> Result<Self::G<'a>, ThreadKey>;
    fn unlock<'a>(g: Self::G<'a>) -> ThreadKey;
    fn read<'a>(&'a self, key: ThreadKey) -> Self::Rg<'a>;
    fn try_read<'a>(&'a self, key: ThreadKey) -> Result<Self::Rg<'a>, ThreadKey>;
    fn unlock_read<'a>(g: Self::Rg<'a>) -> ThreadKey;
    fn scoped_lock<'a, K: Keyable>(&'a self, key: K, f: &dyn Fn(Self::D<'a>));
    fn scoped_try_lock<'a, K: Keyable>(&'a self, key: K, f: &dyn Fn(Self::D<'a>)) -> Result<(), K>;
    fn scoped_read<'a, K: Keyable>(&'a self, key: K, f: &dyn Fn(Self::Rd<'a>));
    fn scoped_try_read<'a, K: Keyable>(&'a self, key: K, f: &dyn Fn(Self::Rd<'a>)) -> Result<(), K>;
}

fn noread() -> ! {
    panic!("happysim: read API generated for a target that cannot be read-locked")
}

impl TargetApi for M {
    type G<'a> = MutexGuard<'a, Pay, SimRawMutex>;
    type Rg<'a> = NoRead;
    type D<'a> = &'a mut Pay;
    type Rd<'a> = NoRead;
    fn lock<'a>(&'a self, key: ThreadKey) -> Self::G<'a> {
        M::lock(self, key)
    }
    fn try_lock<'a>(&'a self, key: ThreadKey) -> Result<Self::G<'a>, ThreadKey> {
        M::try_lock(self, key)
    }
    fn unlock<'a>(g: Self::G<'a>) -> ThreadKey {
        M::unlock(g)
    }
    fn read<'a>(&'a self, _: ThreadKey) -> Self::Rg<'a> {
        noread()
    }
    fn try_read<'a>(&'a self, _: ThreadKey) -> Result<Self::Rg<'a>, ThreadKey> {
        noread()
    }
    fn unlock_read<'a>(g: Self::Rg<'a>) -> ThreadKey {
        match g {}
    }
    fn scoped_lock<'a, K: Keyable>(&'a self, key: K, f: &dyn Fn(Self::D<'a>)) {
        M::scoped_lock(self, key, |d| f(d))
    }
    fn scoped_try_lock<'a, K: Keyable>(&'a self, key: K, f: &dyn Fn(Self::D<'a>)) -> Result<(), K> {
        M::scoped_try_lock(self, key, |d| f(d))
    }
    fn scoped_read<'a, K: Keyable>(&'a self, _: K, _: &dyn Fn(Self::Rd<'a>)) {
        noread()
    }
    fn scoped_try_read<'a, K: Keyable>(&'a self, _: K, _: &dyn Fn(Self::Rd<'a>)) -> Result<(), K> {
        noread()
    }
}

impl TargetApi for R {
    type G<'a> = RwLockWriteGuard<'a, Pay, SimRawRwLock>;
    type Rg<'a> = RwLockReadGuard<'a, Pay, SimRawRwLock>;
    type D<'a> = &'a mut Pay;
    type Rd<'a> = &'a Pay;
    fn lock<'a>(&'a self, key: ThreadKey) -> Self::G<'a> {
        R::write(self, key)
    }
    fn try_lock<'a>(&'a self, key: ThreadKey) -> Result<Self::G<'a>, ThreadKey> {
        R::try_write(self, key)
    }
    fn unlock<'a>(g: Self::G<'a>) -> ThreadKey {
        R::unlock_write(g)
    }
    fn read<'a>(&'a self, key: ThreadKey) -> Self::Rg<'a> {
        R::read(self, key)
    }
    fn try_read<'a>(&'a self, key: ThreadKey) -> Result<Self::Rg<'a>, ThreadKey> {
        R::try_read(self, key)
    }
    fn unlock_read<'a>(g: Self::Rg<'a>) -> ThreadKey {
        R::unlock_read(g)
    }
    fn scoped_lock<'a, K: Keyable>(&'a self, key: K, f: &dyn Fn(Self::D<'a>)) {
        R::scoped_write(self, key, |d| f(d))
    }
    fn scoped_try_lock<'a, K: Keyable>(&'a self, key: K, f: &dyn Fn(Self::D<'a>)) -> Result<(), K> {
        R::scoped_try_write(self, key, |d| f(d))
    }
    fn scoped_read<'a, K: Keyable>(&'a self, key: K, f: &dyn Fn(Self::Rd<'a>)) {
        R::scoped_read(self, key, |d| f(d))
    }
    fn scoped_try_read<'a, K: Keyable>(&'a self, key: K, f: &dyn Fn(Self::Rd<'a>)) -> Result<(), K> {
        R::scoped_try_read(self, key, |d| f(d))
    }
}

fn try_norm<'f, G>(r: Result<PoisonGuard<'f, G>, TryLockPoisonableError<'f, G>>) -> Result<PoisonResult<PoisonGuard<'f, G>>, ThreadKey> {
    match r {
        Ok(g) => Ok(Ok(g)),
        Err(TryLockPoisonableError::Poisoned(e)) => Ok(Err(e)),
        Err(TryLockPoisonableError::WouldBlock(k)) => Err(k),
    }
}

fn unres<T>(r: PoisonResult<T>) -> T {
    match r {
        Ok(g) => g,
        Err(e) => e.into_inner(),
    }
}

macro_rules! poison_api_write {
    ($inner:ty) => {
        type G<'a> = PoisonResult<PoisonGuard<'a, <$inner as happylock::lockable::Lockable>::Guard<'a>>>;
        type D<'a> = <Poisonable<$inner> as happylock::lockable::Lockable>::DataMut<'a>;
        fn lock<'a>(&'a self, key: ThreadKey) -> Self::G<'a> {
            Poisonable::lock(self, key)
        }
        fn try_lock<'a>(&'a self, key: ThreadKey) -> Result<Self::G<'a>, ThreadKey> {
            try_norm(Poisonable::try_lock(self, key))
        }
        fn unlock<'a>(g: Self::G<'a>) -> ThreadKey {
            Poisonable::<$inner>::unlock(unres(g))
        }
        fn scoped_lock<'a, K: Keyable>(&'a self, key: K, f: &dyn Fn(Self::D<'a>)) {
            Poisonable::scoped_lock(self, key, |d| f(d))
        }
        fn scoped_try_lock<'a, K: Keyable>(&'a self, key: K, f: &dyn Fn(Self::D<'a>)) -> Result<(), K> {
            Poisonable::scoped_try_lock(self, key, |d| f(d))
        }
    };
}

macro_rules! poison_api_read {
    ($inner:ty) => {
        type Rg<'a> = PoisonResult<PoisonGuard<'a, <$inner as happylock::lockable::Sharable>::ReadGuard<'a>>>;
        type Rd<'a> = <Poisonable<$inner> as happylock::lockable::Sharable>::DataRef<'a>;
        fn read<'a>(&'a self, key: ThreadKey) -> Self::Rg<'a> {
            Poisonable::read(self, key)
        }
        fn try_read<'a>(&'a self, key: ThreadKey) -> Result<Self::Rg<'a>, ThreadKey> {
            try_norm(Poisonable::try_read(self, key))
        }
        fn unlock_read<'a>(g: Self::Rg<'a>) -> ThreadKey {
            Poisonable::<$inner>::unlock_read(unres(g))
        }
        fn scoped_read<'a, K: Keyable>(&'a self, key: K, f: &dyn Fn(Self::Rd<'a>)) {
            Poisonable::scoped_read(self, key, |d| f(d))
        }
        fn scoped_try_read<'a, K: Keyable>(&'a self, key: K, f: &dyn Fn(Self::Rd<'a>)) -> Result<(), K> {
            Poisonable::scoped_try_read(self, key, |d| f(d))
        }
    };
}

macro_rules! poison_api_noread {
    () => {
        type Rg<'a> = NoRead;
        type Rd<'a> = NoRead;
        fn read<'a>(&'a self, _: ThreadKey) -> Self::Rg<'a> {
            noread()
        }
        fn try_read<'a>(&'a self, _: ThreadKey) -> Result<Self::Rg<'a>, ThreadKey> {
            noread()
        }
        fn unlock_read<'a>(g: Self::Rg<'a>) -> ThreadKey {
            match g {}
        }
        fn scoped_read<'a, K: Keyable>(&'a self, _: K, _: &dyn Fn(Self::Rd<'a>)) {
            noread()
        }
        fn scoped_try_read<'a, K: Keyable>(&'a self, _: K, _: &dyn Fn(Self::Rd<'a>)) -> Result<(), K> {
            noread()
        }
    };
}

impl TargetApi for Poisonable<M> {
    poison_api_write!(M);
    poison_api_noread!();
}
impl TargetApi for Poisonable<Poisonable<M>> {
    poison_api_write!(Poisonable<M>);
    poison_api_noread!();
}
impl TargetApi for Poisonable<R> {
    poison_api_write!(R);
    poison_api_read!(R);
}
impl TargetApi for Poisonable<Poisonable<R>> {
    poison_api_write!(Poisonable<R>);
    poison_api_read!(Poisonable<R>);
}
impl TargetApi for Poisonable<BoxedLockCollection<CN>> {
    poison_api_write!(BoxedLockCollection<CN>);
    poison_api_read!(BoxedLockCollection<CN>);
}
impl TargetApi for Poisonable<RetryingLockCollection<CN>> {
    poison_api_write!(RetryingLockCollection<CN>);
    poison_api_read!(RetryingLockCollection<CN>);
}

macro_rules! coll_api {
    ($ty:ty, $child:ty) => {
        impl TargetApi for $ty {
            type G<'a> = LockGuard<<$child as happylock::lockable::Lockable>::Guard<'a>>;
            type Rg<'a> = LockGuard<<$child as happylock::lockable::Sharable>::ReadGuard<'a>>;
            type D<'a> = <$child as happylock::lockable::Lockable>::DataMut<'a>;
            type Rd<'a> = <$child as happylock::lockable::Sharable>::DataRef<'a>;
            fn lock<'a>(&'a self, key: ThreadKey) -> Self::G<'a> {
                <$ty>::lock(self, key)
            }
            fn try_lock<'a>(&'a self, key: ThreadKey) -> Result<Self::G<'a>, ThreadKey> {
                <$ty>::try_lock(self, key)
            }
            fn unlock<'a>(g: Self::G<'a>) -> ThreadKey {
                <$ty>::unlock(g)
            }
            fn read<'a>(&'a self, key: ThreadKey) -> Self::Rg<'a> {
                <$ty>::read(self, key)
            }
            fn try_read<'a>(&'a self, key: ThreadKey) -> Result<Self::Rg<'a>, ThreadKey> {
                <$ty>::try_read(self, key)
            }
            fn unlock_read<'a>(g: Self::Rg<'a>) -> ThreadKey {
                <$ty>::unlock_read(g)
            }
            fn scoped_lock<'a, K: Keyable>(&'a self, key: K, f: &dyn Fn(Self::D<'a>)) {
                <$ty>::scoped_lock(self, key, |d| f(d))
            }
            fn scoped_try_lock<'a, K: Keyable>(&'a self, key: K, f: &dyn Fn(Self::D<'a>)) -> Result<(), K> {
                <$ty>::scoped_try_lock(self, key, |d| f(d))
            }
            fn scoped_read<'a, K: Keyable>(&'a self, key: K, f: &dyn Fn(Self::Rd<'a>)) {
                <$ty>::scoped_read(self, key, |d| f(d))
            }
            fn scoped_try_read<'a, K: Keyable>(&'a self, key: K, f: &dyn Fn(Self::Rd<'a>)) -> Result<(), K> {
                <$ty>::scoped_try_read(self, key, |d| f(d))
            }
        }
    };
}

coll_api!(BoxedLockCollection<CN>, CN);
coll_api!(RefLockCollection<'static, CN>, CN);
coll_api!(RetryingLockCollection<CN>, CN);
coll_api!(Unit, Cont<Leaf>);
coll_api!(BoxedLockCollection<CL>, CL);
coll_api!(RefLockCollection<'static, CL>, CL);
coll_api!(RetryingLockCollection<CL>, CL);

impl TargetApi for Poisonable<BoxedLockCollection<CL>> {
    poison_api_write!(BoxedLockCollection<CL>);
    poison_api_read!(BoxedLockCollection<CL>);
}
impl TargetApi for Poisonable<RetryingLockCollection<CL>> {
    poison_api_write!(RetryingLockCollection<CL>);
    poison_api_read!(RetryingLockCollection<CL>);
}
coll_api!(RefLockCollection<'static, CML>, CML);
coll_api!(RUnit, CML);
coll_api!(BoxedLockCollection<&'static CML>, &'static CML);
coll_api!(RetryingLockCollection<&'static CML>, &'static CML);
impl TargetApi for Poisonable<BoxedLockCollection<&'static CML>> {
    poison_api_write!(BoxedLockCollection<&'static CML>);
    poison_api_read!(BoxedLockCollection<&'static CML>);
}
impl TargetApi for Poisonable<RetryingLockCollection<&'static CML>> {
    poison_api_write!(RetryingLockCollection<&'static CML>);
    poison_api_read!(RetryingLockCollection<&'static CML>);
}
coll_api!(BoxedLockCollection<MR>, MR);
coll_api!(RetryingLockCollection<MR>, MR);
coll_api!(RefLockCollection<'static, MR>, MR);
impl TargetApi for Poisonable<Unit> {
    poison_api_write!(Unit);
    poison_api_read!(Unit);
}
