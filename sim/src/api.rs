//! Uniform view of happylock's acquisition APIs over every target type (pure delegation),
//! and `Held`: a uniform way to reach payloads through whatever guard / data value the
//! library hands out.

use crate::caps::Opaque;
use crate::pay::Pay;
use crate::raw::{SimRawMutex, SimRawRwLock};
use crate::shape::*;
use happylock::collection::{BoxedLockCollection, LockGuard, RefLockCollection, RetryingLockCollection};
use happylock::mutex::{MutexGuard, MutexRef};
use happylock::poisonable::{PoisonError, PoisonGuard, PoisonRef, PoisonResult, Poisonable, TryLockPoisonableError};
use happylock::rwlock::{RwLockReadGuard, RwLockReadRef, RwLockWriteGuard, RwLockWriteRef};
use happylock::{Keyable, ThreadKey};

thread_local! {
    /// armed by `BodyOp::ArmBomb`: the next closure value that the library drops on this thread
    /// has a captured value whose destructor panics
    pub static BOMB_ARMED: std::cell::Cell<bool> = const { std::cell::Cell::new(false) };
}

/// Captured by move in every closure handed to a scoped call: a value the closure owns. When
/// armed its destructor panics once (never on top of an unwind) - wherever the library lets
/// go of the closure.
pub struct Bomb;
impl Drop for Bomb {
    fn drop(&mut self) {
        if BOMB_ARMED.with(|b| b.replace(false)) && !std::thread::panicking() {
            std::panic::resume_unwind(Box::new(crate::interp::Injected));
        }
    }
}

macro_rules! bombed {
    (|$d:ident| $body:expr) => {{
        let bomb = $crate::api::Bomb;
        move |$d| {
            let _owned = &bomb;
            $body
        }
    }};
}

pub trait Held {
    fn visit<'x>(&'x mut self, path: &[u8], layers: &mut Vec<bool>) -> PayRef<'x>;
    /// move the holds out of the guard if its type lets safe code do that (see caps.rs)
    fn steal<'x>(&'x mut self) -> Option<Box<dyn Opaque + 'x>> {
        None
    }
}

fn at_leaf(path: &[u8]) {
    assert!(path.is_empty(), "happysim: path continues below a single lock");
}

impl Held for MutexGuard<'_, Pay, SimRawMutex> {
    fn visit<'x>(&'x mut self, path: &[u8], _: &mut Vec<bool>) -> PayRef<'x> {
        at_leaf(path);
        PayRef::Mut(&mut **self)
    }
}
impl Held for MutexRef<'_, Pay, SimRawMutex> {
    fn visit<'x>(&'x mut self, path: &[u8], _: &mut Vec<bool>) -> PayRef<'x> {
        at_leaf(path);
        PayRef::Mut(&mut **self)
    }
}
impl Held for RwLockWriteGuard<'_, Pay, SimRawRwLock> {
    fn visit<'x>(&'x mut self, path: &[u8], _: &mut Vec<bool>) -> PayRef<'x> {
        at_leaf(path);
        PayRef::Mut(&mut **self)
    }
}
impl Held for RwLockWriteRef<'_, Pay, SimRawRwLock> {
    fn visit<'x>(&'x mut self, path: &[u8], _: &mut Vec<bool>) -> PayRef<'x> {
        at_leaf(path);
        PayRef::Mut(&mut **self)
    }
}
impl<'g> Held for RwLockReadGuard<'g, Pay, SimRawRwLock> {
    fn visit<'x>(&'x mut self, path: &[u8], _: &mut Vec<bool>) -> PayRef<'x> {
        at_leaf(path);
        crate::shared_leaf_access!(self, RwLockReadGuard<'g, Pay, SimRawRwLock>)
    }
}
impl<'g> Held for RwLockReadRef<'g, Pay, SimRawRwLock> {
    fn visit<'x>(&'x mut self, path: &[u8], _: &mut Vec<bool>) -> PayRef<'x> {
        at_leaf(path);
        crate::shared_leaf_access!(self, RwLockReadRef<'g, Pay, SimRawRwLock>)
    }
}
impl Held for &mut Pay {
    fn visit<'x>(&'x mut self, path: &[u8], _: &mut Vec<bool>) -> PayRef<'x> {
        at_leaf(path);
        PayRef::Mut(&mut **self)
    }
}
impl Held for &Pay {
    fn visit<'x>(&'x mut self, path: &[u8], _: &mut Vec<bool>) -> PayRef<'x> {
        at_leaf(path);
        PayRef::Shared(&**self)
    }
}
impl<G: Held> Held for LockGuard<G> {
    fn visit<'x>(&'x mut self, path: &[u8], layers: &mut Vec<bool>) -> PayRef<'x> {
        (**self).visit(path, layers)
    }
    fn steal<'x>(&'x mut self) -> Option<Box<dyn Opaque + 'x>> {
        (**self).steal()
    }
}
impl<G: Held> Held for PoisonGuard<'_, G> {
    fn visit<'x>(&'x mut self, path: &[u8], layers: &mut Vec<bool>) -> PayRef<'x> {
        self.as_mut().visit(path, layers)
    }
    fn steal<'x>(&'x mut self) -> Option<Box<dyn Opaque + 'x>> {
        self.as_mut().steal()
    }
}
impl<G: Held> Held for PoisonRef<'_, G> {
    fn visit<'x>(&'x mut self, path: &[u8], layers: &mut Vec<bool>) -> PayRef<'x> {
        (**self).visit(path, layers)
    }
    fn steal<'x>(&'x mut self) -> Option<Box<dyn Opaque + 'x>> {
        (**self).steal()
    }
}
impl<X: Held> Held for Result<X, PoisonError<X>> {
    fn visit<'x>(&'x mut self, path: &[u8], layers: &mut Vec<bool>) -> PayRef<'x> {
        match self {
            Ok(x) => {
                layers.push(false);
                x.visit(path, layers)
            }
            Err(e) => {
                layers.push(true);
                e.get_mut().visit(path, layers)
            }
        }
    }
    fn steal<'x>(&'x mut self) -> Option<Box<dyn Opaque + 'x>> {
        match self {
            Ok(x) => x.steal(),
            Err(e) => e.get_mut().steal(),
        }
    }
}

// the library's guards / data values for a `Vec<&Leaf>` / `Box<[&Leaf]>` child
macro_rules! slice_held {
    ($t:ty, $steal:expr) => {
        impl<'g> Held for $t {
            fn visit<'x>(&'x mut self, path: &[u8], layers: &mut Vec<bool>) -> PayRef<'x> {
                assert!(path.len() == 1, "happysim: slice targets are flat");
                self[path[0] as usize].open(layers)
            }
            fn steal<'x>(&'x mut self) -> Option<Box<dyn Opaque + 'x>> {
                #[allow(unused_imports)]
                use crate::caps::CapNo as _;
                if !$steal {
                    return None;
                }
                let stolen = crate::caps::cap_of(&*self).steal(self)?;
                Some(Box::new(stolen))
            }
        }
    };
}
slice_held!([LeafAcc<'g, WG>; 2], true);
slice_held!([LeafAcc<'g, RG>; 2], true);
slice_held!([LeafAcc<'g, DM>; 2], false);
slice_held!([LeafAcc<'g, DR>; 2], false);
slice_held!([LeafAcc<'g, WG>; 3], true);
slice_held!([LeafAcc<'g, RG>; 3], true);
slice_held!([LeafAcc<'g, DM>; 3], false);
slice_held!([LeafAcc<'g, DR>; 3], false);
slice_held!(happylock::lockable::GuardSlice<LeafAcc<'g, WG>>, true);
slice_held!(happylock::lockable::GuardSlice<LeafAcc<'g, RG>>, true);
slice_held!(Box<[LeafAcc<'g, DM>]>, false);
slice_held!(Box<[LeafAcc<'g, DR>]>, false);

impl<'g, F: Fam> Held for FCont<'g, F, NodeAcc<'g, F>> {
    fn visit<'x>(&'x mut self, path: &[u8], layers: &mut Vec<bool>) -> PayRef<'x> {
        FCont::<'g, F, NodeAcc<'g, F>>::visit(self, path, layers)
    }
}
impl<'g, F: Fam> Held for FCont<'g, F, LeafAcc<'g, F>> {
    fn visit<'x>(&'x mut self, path: &[u8], layers: &mut Vec<bool>) -> PayRef<'x> {
        self.visit_leaf(path, layers)
    }
}

/// stands in for the read side of targets that cannot be read-locked
pub enum NoRead {}
impl Held for NoRead {
    fn visit<'x>(&'x mut self, _: &[u8], _: &mut Vec<bool>) -> PayRef<'x> {
        match *self {}
    }
}

pub trait TargetApi {
    /// can the closure of a scoped call return the data it was given? (the call's signature
    /// ties the data to the borrow of the receiver rather than to the call)
    const ESCAPABLE: bool = true;
    type G<'a>: Held
    where
        Self: 'a;
    type Rg<'a>: Held
    where
        Self: 'a;
    type D<'a>: Held
    where
        Self: 'a;
    type Rd<'a>: Held
    where
        Self: 'a;
    /// box the guard for a trip to another thread, if its type (key and all) is Send
    fn send_guard<'a>(g: Self::G<'a>) -> Result<Box<dyn Opaque + Send + 'a>, Self::G<'a>> {
        Err(g)
    }
    fn send_read_guard<'a>(g: Self::Rg<'a>) -> Result<Box<dyn Opaque + Send + 'a>, Self::Rg<'a>> {
        Err(g)
    }
    /// consume the guard by value through `IntoIterator` (if the guard type offers that) and
    /// keep the items
    fn take_apart<'a>(g: Self::G<'a>) -> Result<Vec<Box<dyn Opaque + 'a>>, Self::G<'a>> {
        Err(g)
    }
    fn take_apart_read<'a>(g: Self::Rg<'a>) -> Result<Vec<Box<dyn Opaque + 'a>>, Self::Rg<'a>> {
        Err(g)
    }
    fn lock<'a>(&'a self, key: ThreadKey) -> Self::G<'a>;
    fn try_lock<'a>(&'a self, key: ThreadKey) -> Result<Self::G<'a>, ThreadKey>;
    fn unlock<'a>(g: Self::G<'a>) -> ThreadKey;
    fn read<'a>(&'a self, key: ThreadKey) -> Self::Rg<'a>;
    fn try_read<'a>(&'a self, key: ThreadKey) -> Result<Self::Rg<'a>, ThreadKey>;
    fn unlock_read<'a>(g: Self::Rg<'a>) -> ThreadKey;
    fn scoped_lock<'a, K: Keyable, Rt>(&'a self, key: K, f: &dyn Fn(Self::D<'a>) -> Rt) -> Rt;
    fn scoped_try_lock<'a, K: Keyable, Rt>(&'a self, key: K, f: &dyn Fn(Self::D<'a>) -> Rt) -> Result<Rt, K>;
    fn scoped_read<'a, K: Keyable, Rt>(&'a self, key: K, f: &dyn Fn(Self::Rd<'a>) -> Rt) -> Rt;
    fn scoped_try_read<'a, K: Keyable, Rt>(&'a self, key: K, f: &dyn Fn(Self::Rd<'a>) -> Rt) -> Result<Rt, K>;
}

fn noread() -> ! {
    panic!("happysim: read API generated for a target that cannot be read-locked")
}

/// The scoped calls of `Mutex` / `RwLock` give their closure a reference that is only valid for
/// the call (any lifetime), while this trait speaks of one tied to the receiver. The interpreter
/// never lets such a value leave the closure (`ESCAPABLE = false`), which is what makes
/// widening the lifetime for the duration of the closure sound.
unsafe fn widen<'a, X: ?Sized, Y: Widen<'a, X>>(y: Y) -> Y::Out {
    y.widen()
}
trait Widen<'a, X: ?Sized> {
    type Out;
    unsafe fn widen(self) -> Self::Out;
}
impl<'a, 'b, X: ?Sized + 'a> Widen<'a, X> for &'b mut X {
    type Out = &'a mut X;
    unsafe fn widen(self) -> &'a mut X {
        &mut *(self as *mut X)
    }
}
impl<'a, 'b, X: ?Sized + 'a> Widen<'a, X> for &'b X {
    type Out = &'a X;
    unsafe fn widen(self) -> &'a X {
        &*(self as *const X)
    }
}

impl TargetApi for M {
    const ESCAPABLE: bool = false;
    fn send_guard<'a>(g: Self::G<'a>) -> Result<Box<dyn Opaque + Send + 'a>, Self::G<'a>> {
        #[allow(unused_imports)]
        use crate::caps::CapNo as _;
        crate::caps::cap::<MutexGuard<'a, Pay, SimRawMutex>>().boxed_opaque(g)
    }
    type G<'a> = MutexGuard<'a, Pay, SimRawMutex>;
    type Rg<'a> = NoRead;
    type D<'a> = &'a mut Pay;
    type Rd<'a> = NoRead;
    fn lock<'a>(&'a self, key: ThreadKey) -> Self::G<'a> {
        M::lock(self, key)
    }
    fn try_lock<'a>(&'a self, key: ThreadKey) -> Result<Self::G<'a>, ThreadKey> {
        M::try_lock(self, key)
    }
    fn unlock<'a>(g: Self::G<'a>) -> ThreadKey {
        M::unlock(g)
    }
    fn read<'a>(&'a self, _: ThreadKey) -> Self::Rg<'a> {
        noread()
    }
    fn try_read<'a>(&'a self, _: ThreadKey) -> Result<Self::Rg<'a>, ThreadKey> {
        noread()
    }
    fn unlock_read<'a>(g: Self::Rg<'a>) -> ThreadKey {
        match g {}
    }
    fn scoped_lock<'a, K: Keyable, Rt>(&'a self, key: K, f: &dyn Fn(Self::D<'a>) -> Rt) -> Rt {
        M::scoped_lock(self, key, bombed!(|d| f(unsafe { widen(d) })))
    }
    fn scoped_try_lock<'a, K: Keyable, Rt>(&'a self, key: K, f: &dyn Fn(Self::D<'a>) -> Rt) -> Result<Rt, K> {
        M::scoped_try_lock(self, key, bombed!(|d| f(unsafe { widen(d) })))
    }
    fn scoped_read<'a, K: Keyable, Rt>(&'a self, _: K, _: &dyn Fn(Self::Rd<'a>) -> Rt) -> Rt {
        noread()
    }
    fn scoped_try_read<'a, K: Keyable, Rt>(&'a self, _: K, _: &dyn Fn(Self::Rd<'a>) -> Rt) -> Result<Rt, K> {
        noread()
    }
}

impl TargetApi for R {
    const ESCAPABLE: bool = false;
    fn send_guard<'a>(g: Self::G<'a>) -> Result<Box<dyn Opaque + Send + 'a>, Self::G<'a>> {
        #[allow(unused_imports)]
        use crate::caps::CapNo as _;
        crate::caps::cap::<RwLockWriteGuard<'a, Pay, SimRawRwLock>>().boxed_opaque(g)
    }
    fn send_read_guard<'a>(g: Self::Rg<'a>) -> Result<Box<dyn Opaque + Send + 'a>, Self::Rg<'a>> {
        #[allow(unused_imports)]
        use crate::caps::CapNo as _;
        crate::caps::cap::<RwLockReadGuard<'a, Pay, SimRawRwLock>>().boxed_opaque(g)
    }
    type G<'a> = RwLockWriteGuard<'a, Pay, SimRawRwLock>;
    type Rg<'a> = RwLockReadGuard<'a, Pay, SimRawRwLock>;
    type D<'a> = &'a mut Pay;
    type Rd<'a> = &'a Pay;
    fn lock<'a>(&'a self, key: ThreadKey) -> Self::G<'a> {
        R::write(self, key)
    }
    fn try_lock<'a>(&'a self, key: ThreadKey) -> Result<Self::G<'a>, ThreadKey> {
        R::try_write(self, key)
    }
    fn unlock<'a>(g: Self::G<'a>) -> ThreadKey {
        R::unlock_write(g)
    }
    fn read<'a>(&'a self, key: ThreadKey) -> Self::Rg<'a> {
        R::read(self, key)
    }
    fn try_read<'a>(&'a self, key: ThreadKey) -> Result<Self::Rg<'a>, ThreadKey> {
        R::try_read(self, key)
    }
    fn unlock_read<'a>(g: Self::Rg<'a>) -> ThreadKey {
        R::unlock_read(g)
    }
    fn scoped_lock<'a, K: Keyable, Rt>(&'a self, key: K, f: &dyn Fn(Self::D<'a>) -> Rt) -> Rt {
        R::scoped_write(self, key, bombed!(|d| f(unsafe { widen(d) })))
    }
    fn scoped_try_lock<'a, K: Keyable, Rt>(&'a self, key: K, f: &dyn Fn(Self::D<'a>) -> Rt) -> Result<Rt, K> {
        R::scoped_try_write(self, key, bombed!(|d| f(unsafe { widen(d) })))
    }
    fn scoped_read<'a, K: Keyable, Rt>(&'a self, key: K, f: &dyn Fn(Self::Rd<'a>) -> Rt) -> Rt {
        R::scoped_read(self, key, bombed!(|d| f(unsafe { widen(d) })))
    }
    fn scoped_try_read<'a, K: Keyable, Rt>(&'a self, key: K, f: &dyn Fn(Self::Rd<'a>) -> Rt) -> Result<Rt, K> {
        R::scoped_try_read(self, key, bombed!(|d| f(unsafe { widen(d) })))
    }
}

fn try_norm<'f, G>(r: Result<PoisonGuard<'f, G>, TryLockPoisonableError<'f, G>>) -> Result<PoisonResult<PoisonGuard<'f, G>>, ThreadKey> {
    match r {
        Ok(g) => Ok(Ok(g)),
        Err(TryLockPoisonableError::Poisoned(e)) => Ok(Err(e)),
        Err(TryLockPoisonableError::WouldBlock(k)) => Err(k),
    }
}

fn unres<T>(r: PoisonResult<T>) -> T {
    match r {
        Ok(g) => g,
        Err(e) => e.into_inner(),
    }
}

macro_rules! poison_api_write {
    ($inner:ty) => {
        type G<'a> = PoisonResult<PoisonGuard<'a, <$inner as happylock::lockable::Lockable>::Guard<'a>>>;
        type D<'a> = <Poisonable<$inner> as happylock::lockable::Lockable>::DataMut<'a>;
        fn lock<'a>(&'a self, key: ThreadKey) -> Self::G<'a> {
            Poisonable::lock(self, key)
        }
        fn try_lock<'a>(&'a self, key: ThreadKey) -> Result<Self::G<'a>, ThreadKey> {
            try_norm(Poisonable::try_lock(self, key))
        }
        fn unlock<'a>(g: Self::G<'a>) -> ThreadKey {
            Poisonable::<$inner>::unlock(unres(g))
        }
        fn scoped_lock<'a, K: Keyable, Rt>(&'a self, key: K, f: &dyn Fn(Self::D<'a>) -> Rt) -> Rt {
            Poisonable::scoped_lock(self, key, bombed!(|d| f(d)))
        }
        fn scoped_try_lock<'a, K: Keyable, Rt>(&'a self, key: K, f: &dyn Fn(Self::D<'a>) -> Rt) -> Result<Rt, K> {
            Poisonable::scoped_try_lock(self, key, bombed!(|d| f(d)))
        }
    };
}

macro_rules! poison_api_read {
    ($inner:ty) => {
        type Rg<'a> = PoisonResult<PoisonGuard<'a, <$inner as happylock::lockable::Sharable>::ReadGuard<'a>>>;
        type Rd<'a> = <Poisonable<$inner> as happylock::lockable::Sharable>::DataRef<'a>;
        fn read<'a>(&'a self, key: ThreadKey) -> Self::Rg<'a> {
            Poisonable::read(self, key)
        }
        fn try_read<'a>(&'a self, key: ThreadKey) -> Result<Self::Rg<'a>, ThreadKey> {
            try_norm(Poisonable::try_read(self, key))
        }
        fn unlock_read<'a>(g: Self::Rg<'a>) -> ThreadKey {
            Poisonable::<$inner>::unlock_read(unres(g))
        }
        fn scoped_read<'a, K: Keyable, Rt>(&'a self, key: K, f: &dyn Fn(Self::Rd<'a>) -> Rt) -> Rt {
            Poisonable::scoped_read(self, key, bombed!(|d| f(d)))
        }
        fn scoped_try_read<'a, K: Keyable, Rt>(&'a self, key: K, f: &dyn Fn(Self::Rd<'a>) -> Rt) -> Result<Rt, K> {
            Poisonable::scoped_try_read(self, key, bombed!(|d| f(d)))
        }
    };
}

macro_rules! poison_api_noread {
    () => {
        type Rg<'a> = NoRead;
        type Rd<'a> = NoRead;
        fn read<'a>(&'a self, _: ThreadKey) -> Self::Rg<'a> {
            noread()
        }
        fn try_read<'a>(&'a self, _: ThreadKey) -> Result<Self::Rg<'a>, ThreadKey> {
            noread()
        }
        fn unlock_read<'a>(g: Self::Rg<'a>) -> ThreadKey {
            match g {}
        }
        fn scoped_read<'a, K: Keyable, Rt>(&'a self, _: K, _: &dyn Fn(Self::Rd<'a>) -> Rt) -> Rt {
            noread()
        }
        fn scoped_try_read<'a, K: Keyable, Rt>(&'a self, _: K, _: &dyn Fn(Self::Rd<'a>) -> Rt) -> Result<Rt, K> {
            noread()
        }
    };
}

impl TargetApi for Poisonable<M> {
    poison_api_write!(M);
    poison_api_noread!();
}
impl TargetApi for Poisonable<Poisonable<M>> {
    poison_api_write!(Poisonable<M>);
    poison_api_noread!();
}
impl TargetApi for Poisonable<R> {
    poison_api_write!(R);
    poison_api_read!(R);
}
impl TargetApi for Poisonable<Poisonable<R>> {
    poison_api_write!(Poisonable<R>);
    poison_api_read!(Poisonable<R>);
}
impl TargetApi for Poisonable<BoxedLockCollection<CN>> {
    poison_api_write!(BoxedLockCollection<CN>);
    poison_api_read!(BoxedLockCollection<CN>);
}
impl TargetApi for Poisonable<RetryingLockCollection<CN>> {
    poison_api_write!(RetryingLockCollection<CN>);
    poison_api_read!(RetryingLockCollection<CN>);
}

macro_rules! coll_api {
    ($ty:ty, $child:ty) => {
        impl TargetApi for $ty {
            fn send_guard<'a>(g: Self::G<'a>) -> Result<Box<dyn Opaque + Send + 'a>, Self::G<'a>> {
                #[allow(unused_imports)]
                use crate::caps::CapNo as _;
                crate::caps::cap::<LockGuard<<$child as happylock::lockable::Lockable>::Guard<'a>>>().boxed_opaque(g)
            }
            fn send_read_guard<'a>(g: Self::Rg<'a>) -> Result<Box<dyn Opaque + Send + 'a>, Self::Rg<'a>> {
                #[allow(unused_imports)]
                use crate::caps::CapNo as _;
                crate::caps::cap::<LockGuard<<$child as happylock::lockable::Sharable>::ReadGuard<'a>>>().boxed_opaque(g)
            }
            fn take_apart<'a>(g: Self::G<'a>) -> Result<Vec<Box<dyn Opaque + 'a>>, Self::G<'a>> {
                #[allow(unused_imports)]
                use crate::caps::CapNo as _;
                crate::caps::cap::<LockGuard<<$child as happylock::lockable::Lockable>::Guard<'a>>>().into_pieces(g)
            }
            fn take_apart_read<'a>(g: Self::Rg<'a>) -> Result<Vec<Box<dyn Opaque + 'a>>, Self::Rg<'a>> {
                #[allow(unused_imports)]
                use crate::caps::CapNo as _;
                crate::caps::cap::<LockGuard<<$child as happylock::lockable::Sharable>::ReadGuard<'a>>>().into_pieces(g)
            }
            type G<'a> = LockGuard<<$child as happylock::lockable::Lockable>::Guard<'a>>;
            type Rg<'a> = LockGuard<<$child as happylock::lockable::Sharable>::ReadGuard<'a>>;
            type D<'a> = <$child as happylock::lockable::Lockable>::DataMut<'a>;
            type Rd<'a> = <$child as happylock::lockable::Sharable>::DataRef<'a>;
            fn lock<'a>(&'a self, key: ThreadKey) -> Self::G<'a> {
                <$ty>::lock(self, key)
            }
            fn try_lock<'a>(&'a self, key: ThreadKey) -> Result<Self::G<'a>, ThreadKey> {
                <$ty>::try_lock(self, key)
            }
            fn unlock<'a>(g: Self::G<'a>) -> ThreadKey {
                <$ty>::unlock(g)
            }
            fn read<'a>(&'a self, key: ThreadKey) -> Self::Rg<'a> {
                <$ty>::read(self, key)
            }
            fn try_read<'a>(&'a self, key: ThreadKey) -> Result<Self::Rg<'a>, ThreadKey> {
                <$ty>::try_read(self, key)
            }
            fn unlock_read<'a>(g: Self::Rg<'a>) -> ThreadKey {
                <$ty>::unlock_read(g)
            }
            fn scoped_lock<'a, K: Keyable, Rt>(&'a self, key: K, f: &dyn Fn(Self::D<'a>) -> Rt) -> Rt {
                <$ty>::scoped_lock(self, key, bombed!(|d| f(d)))
            }
            fn scoped_try_lock<'a, K: Keyable, Rt>(&'a self, key: K, f: &dyn Fn(Self::D<'a>) -> Rt) -> Result<Rt, K> {
                <$ty>::scoped_try_lock(self, key, bombed!(|d| f(d)))
            }
            fn scoped_read<'a, K: Keyable, Rt>(&'a self, key: K, f: &dyn Fn(Self::Rd<'a>) -> Rt) -> Rt {
                <$ty>::scoped_read(self, key, bombed!(|d| f(d)))
            }
            fn scoped_try_read<'a, K: Keyable, Rt>(&'a self, key: K, f: &dyn Fn(Self::Rd<'a>) -> Rt) -> Result<Rt, K> {
                <$ty>::scoped_try_read(self, key, bombed!(|d| f(d)))
            }
        }
    };
}

coll_api!(BoxedLockCollection<CN>, CN);
coll_api!(RefLockCollection<'static, CN>, CN);
coll_api!(RetryingLockCollection<CN>, CN);
coll_api!(Unit, Cont<Leaf>);
coll_api!(BoxedLockCollection<CL>, CL);
coll_api!(RefLockCollection<'static, CL>, CL);
coll_api!(RetryingLockCollection<CL>, CL);

impl TargetApi for Poisonable<BoxedLockCollection<CL>> {
    poison_api_write!(BoxedLockCollection<CL>);
    poison_api_read!(BoxedLockCollection<CL>);
}
impl TargetApi for Poisonable<RetryingLockCollection<CL>> {
    poison_api_write!(RetryingLockCollection<CL>);
    poison_api_read!(RetryingLockCollection<CL>);
}
coll_api!(RefLockCollection<'static, CML>, CML);
coll_api!(RUnit, CML);
coll_api!(BoxedLockCollection<&'static CML>, &'static CML);
coll_api!(RetryingLockCollection<&'static CML>, &'static CML);
impl TargetApi for Poisonable<BoxedLockCollection<&'static CML>> {
    poison_api_write!(BoxedLockCollection<&'static CML>);
    poison_api_read!(BoxedLockCollection<&'static CML>);
}
impl TargetApi for Poisonable<RetryingLockCollection<&'static CML>> {
    poison_api_write!(RetryingLockCollection<&'static CML>);
    poison_api_read!(RetryingLockCollection<&'static CML>);
}
coll_api!(BoxedLockCollection<MR>, MR);
coll_api!(RetryingLockCollection<MR>, MR);
coll_api!(RefLockCollection<'static, MR>, MR);
impl TargetApi for Poisonable<Unit> {
    poison_api_write!(Unit);
    poison_api_read!(Unit);
}

coll_api!(BoxedLockCollection<SV>, SV);
coll_api!(BoxedLockCollection<SB>, SB);
coll_api!(RetryingLockCollection<SV>, SV);
coll_api!(RefLockCollection<'static, SB>, SB);
impl TargetApi for Poisonable<BoxedLockCollection<SV>> {
    poison_api_write!(BoxedLockCollection<SV>);
    poison_api_read!(BoxedLockCollection<SV>);
}
impl TargetApi for Poisonable<RetryingLockCollection<SB>> {
    poison_api_write!(RetryingLockCollection<SB>);
    poison_api_read!(RetryingLockCollection<SB>);
}
coll_api!(BoxedLockCollection<[&'static Leaf; 2]>, [&'static Leaf; 2]);
coll_api!(RetryingLockCollection<[&'static Leaf; 3]>, [&'static Leaf; 3]);
