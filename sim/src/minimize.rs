//! Shrinks a failing scenario while the same (property, clause) violation persists.
//! Candidates run under a *guided* schedule (follow the recorded choice if that thread is
//! enabled, else the lowest enabled one); after every accepted step the schedule actually
//! executed is recorded again, so the final replay file is exact.

use crate::interp;
use crate::oracle;
use crate::spec::*;

pub struct MinResult {
    pub scenario: Scenario,
    pub candidates_tried: u32,
    pub accepted: u32,
}

fn has_gate(step: &Step) -> bool {
    match step {
        Step::GateOpen(_) | Step::GateWait(_) | Step::WaitBlocked(..) => true,
        Step::Acquire(a) => a.body.iter().any(|b| matches!(b, BodyOp::GateOpen(_) | BodyOp::GateWait(_) | BodyOp::WaitBlocked(..))),
        _ => false,
    }
}

/// run the candidate; Some(trace) if it still shows the violation
fn still_fails(c: &Scenario, prop: &str, clause: &str) -> Option<Vec<(u8, bool)>> {
    let r = interp::run_scenario(c);
    let raw = c.cfg.faults.raw_faults();
    let hit = if raw {
        r.out.events.first().filter(|e| oracle::properties_of(e, c).contains(&prop) && format!("{:?}", e.clause) == clause).is_some()
    } else {
        r.out.events.iter().any(|e| oracle::properties_of(e, c).contains(&prop) && format!("{:?}", e.clause) == clause)
    };
    if hit && !r.out.events.iter().any(|e| e.clause == crate::sched::Clause::Harness) {
        Some(r.out.trace)
    } else {
        None
    }
}

fn simpler_targets(t: &TSpec) -> Vec<TSpec> {
    let mut v = Vec::new();
    match t {
        TSpec::Coll { kind, cont, members, poison } => {
            // a member instead of the collection
            for m in members {
                v.push(m.clone());
            }
            // drop one member
            if members.len() > 1 {
                for i in 0..members.len() {
                    let mut ms = members.clone();
                    ms.remove(i);
                    let c = if cont.supports(ms.len()) { *cont } else { crate::shape::ContKind::Vec };
                    v.push(TSpec::Coll { kind: *kind, cont: c, members: ms, poison: *poison });
                }
            }
            if *poison {
                v.push(TSpec::Coll { kind: *kind, cont: *cont, members: members.clone(), poison: false });
            }
            if *cont != crate::shape::ContKind::Vec {
                v.push(TSpec::Coll { kind: *kind, cont: crate::shape::ContKind::Vec, members: members.clone(), poison: *poison });
            }
            // simplify a member in place
            for i in 0..members.len() {
                for s in simpler_targets(&members[i]) {
                    let mut ms = members.clone();
                    ms[i] = s;
                    v.push(TSpec::Coll { kind: *kind, cont: *cont, members: ms, poison: *poison });
                }
            }
        }
        TSpec::Tagged(_, inner) => v.push((**inner).clone()),
        TSpec::Group { members, .. } => {
            for m in members {
                v.push(m.clone());
            }
        }
        TSpec::Own { kind, cont, leaves, ctor, poison } => {
            if *poison {
                v.push(TSpec::Own { kind: *kind, cont: *cont, leaves: leaves.clone(), ctor: *ctor, poison: false });
            }
            if *ctor != Ctor::New {
                v.push(TSpec::Own { kind: *kind, cont: *cont, leaves: leaves.clone(), ctor: Ctor::New, poison: *poison });
            }
        }
        TSpec::OnData { data, kind, from, poison, unchecked } => {
            if *poison {
                v.push(TSpec::OnData { data: *data, kind: *kind, from: *from, poison: false, unchecked: *unchecked });
            }
            if *from {
                v.push(TSpec::OnData { data: *data, kind: *kind, from: false, poison: *poison, unchecked: *unchecked });
            }
            if *unchecked {
                v.push(TSpec::OnData { data: *data, kind: *kind, from: *from, poison: *poison, unchecked: false });
            }
        }
        _ => {}
    }
    v
}

fn body_indices_ok(s: &Scenario) -> bool {
    // body ops index the flattened leaves of their target: keep them in range
    for th in &s.program.threads {
        for st in th {
            if let Step::Acquire(a) = st {
                let n = s.world.flatten(&s.world.targets[a.target], None).len();
                for b in &a.body {
                    if let BodyOp::Read(i) | BodyOp::Write(i) = b {
                        if *i >= n {
                            return false;
                        }
                    }
                }
                if a.api.is_read() && !s.world.all_rw(&s.world.targets[a.target]) {
                    return false;
                }
            }
        }
    }
    true
}

pub fn minimize(orig: &Scenario, prop: &str, clause: &str, budget: u32) -> MinResult {
    let mut cur = orig.clone();
    let mut tried = 0u32;
    let mut accepted = 0u32;
    macro_rules! attempt {
        ($cand:expr) => {{
            let cand: Scenario = $cand;
            let mut ok = false;
            if tried < budget && body_indices_ok(&cand) {
                tried += 1;
                if let Some(tr) = still_fails(&cand, prop, clause) {
                    cur = cand;
                    cur.cfg.replay = Some(tr);
                    accepted += 1;
                    ok = true;
                }
            }
            ok
        }};
    }
    let mut progress = true;
    while progress && tried < budget {
        progress = false;
        // 1. drop whole threads (not those that open gates others wait for)
        let mut t = 0;
        while t < cur.program.threads.len() {
            if cur.program.threads.len() > 1 && !cur.program.threads[t].iter().any(has_gate) {
                let mut c = cur.clone();
                c.program.threads.remove(t);
                // one-shot faults name threads by index
                if c.cfg.faults.oneshots.iter().any(|o| o.tid == t) {
                    t += 1;
                    continue;
                }
                for o in c.cfg.faults.oneshots.iter_mut() {
                    if o.tid > t {
                        o.tid -= 1;
                    }
                }
                // the recorded schedule names threads by index as well
                if let Some(rp) = c.cfg.replay.as_mut() {
                    rp.retain(|(x, _)| *x as usize != t);
                    for e in rp.iter_mut() {
                        if e.0 as usize > t {
                            e.0 -= 1;
                        }
                    }
                }
                if attempt!(c) {
                    progress = true;
                    continue;
                }
            }
            t += 1;
        }
        // 2. drop steps
        for t in 0..cur.program.threads.len() {
            let mut i = 0;
            while i < cur.program.threads[t].len() {
                if !has_gate(&cur.program.threads[t][i]) && cur.cfg.faults.oneshots.is_empty() {
                    let mut c = cur.clone();
                    c.program.threads[t].remove(i);
                    if attempt!(c) {
                        progress = true;
                        continue;
                    }
                }
                i += 1;
            }
        }
        // 3. drop body ops, simplify acquisitions
        for t in 0..cur.program.threads.len() {
            for i in 0..cur.program.threads[t].len() {
                if let Step::Acquire(a) = cur.program.threads[t][i].clone() {
                    let mut j = 0;
                    while j < a.body.len() {
                        if let Step::Acquire(a2) = &cur.program.threads[t][i] {
                            if j >= a2.body.len() {
                                break;
                            }
                            if !matches!(a2.body[j], BodyOp::GateOpen(_) | BodyOp::GateWait(_) | BodyOp::WaitBlocked(..)) {
                                let mut c = cur.clone();
                                if let Step::Acquire(a3) = &mut c.program.threads[t][i] {
                                    a3.body.remove(j);
                                }
                                if attempt!(c) {
                                    progress = true;
                                    continue;
                                }
                            }
                        }
                        j += 1;
                    }
                    for f in 0..4 {
                        let mut c = cur.clone();
                        let mut changed = false;
                        if let Step::Acquire(a3) = &mut c.program.threads[t][i] {
                            match f {
                                0 if a3.rebuild => {
                                    a3.rebuild = false;
                                    changed = true;
                                }
                                1 if a3.lent_key => {
                                    a3.lent_key = false;
                                    changed = true;
                                }
                                2 if matches!(a3.release, Release::Unlock | Release::UnlockInDrop) => {
                                    a3.release = Release::Drop;
                                    changed = true;
                                }
                                3 if a3.api.is_scoped() => {
                                    a3.api = match a3.api {
                                        Api::ScopedLock => Api::Lock,
                                        Api::ScopedTryLock => Api::TryLock,
                                        Api::ScopedRead => Api::Read,
                                        _ => Api::TryRead,
                                    };
                                    a3.lent_key = false;
                                    changed = true;
                                }
                                _ => {}
                            }
                        }
                        if changed && attempt!(c) {
                            progress = true;
                        }
                    }
                }
            }
        }
        // 4. simplify targets (body indices are re-checked by body_indices_ok)
        for ti in 0..cur.world.targets.len() {
            let used = cur.program.threads.iter().flatten().any(|s| match s {
                Step::Acquire(a) => a.target == ti,
                Step::NonAcq(_, t) | Step::Destroy(t, _) => *t == ti,
                _ => false,
            });
            let referenced = cur.world.targets.iter().any(|t| format!("{:?}", t).contains(&format!("Shared({})", ti)));
            if !used && !referenced {
                continue;
            }
            for s in simpler_targets(&cur.world.targets[ti].clone()) {
                let mut c = cur.clone();
                c.world.targets[ti] = s;
                // drop body accesses that no longer exist rather than rejecting the candidate
                let n = c.world.flatten(&c.world.targets[ti], None).len();
                for th in c.program.threads.iter_mut() {
                    for st in th.iter_mut() {
                        if let Step::Acquire(a) = st {
                            if a.target == ti {
                                a.body.retain(|b| !matches!(b, BodyOp::Read(i) | BodyOp::Write(i) if *i >= n));
                            }
                        }
                    }
                }
                if attempt!(c) {
                    progress = true;
                    break;
                }
            }
        }
        // 5. faults
        if cur.cfg.faults.try_refuse_pct > 0 {
            let mut c = cur.clone();
            c.cfg.faults.try_refuse_pct = 0;
            if let Some(rp) = c.cfg.replay.as_mut() {
                rp.iter_mut().for_each(|e| e.1 = false);
            }
            if attempt!(c) {
                progress = true;
            }
        }
        for k in 0..cur.cfg.faults.evil.len() {
            if cur.cfg.faults.evil.len() + cur.cfg.faults.oneshots.len() > 1 {
                let mut c = cur.clone();
                c.cfg.faults.evil.remove(k);
                if attempt!(c) {
                    progress = true;
                    break;
                }
            }
        }
    }
    // 6. schedule: fewest recorded choices that still fail (past the end the scheduler runs to block)
    if let Some(full) = cur.cfg.replay.clone() {
        let mut lo = 0usize;
        let mut hi = full.len();
        while lo < hi && tried < budget {
            let mid = (lo + hi) / 2;
            let mut c = cur.clone();
            c.cfg.replay = Some(full[..mid].to_vec());
            tried += 1;
            if still_fails(&c, prop, clause).is_some() {
                hi = mid;
            } else {
                lo = mid + 1;
            }
        }
        let mut c = cur.clone();
        c.cfg.replay = Some(full[..hi.min(full.len())].to_vec());
        if still_fails(&c, prop, clause).is_some() {
            cur = c;
        }
    }
    MinResult { scenario: cur, candidates_tried: tried, accepted }
}
