//! Baton-passing deterministic scheduler, owner table and raw-level monitors.
//!
//! Exactly one simulated thread is runnable at any time. Every raw lock operation, payload
//! yield, gate wait and thread start/end is a scheduling point: the thread publishes its
//! pending operation, the (seeded or replayed) chooser picks the next thread among the
//! enabled ones, the effect of the picked thread's operation is applied to the owner table
//! atomically with the pick, and the baton is handed over.

use crate::rng::{fnv, Rng, FNV0};
use serde::{Deserialize, Serialize};
use std::cell::Cell;
use std::sync::atomic::{AtomicPtr, Ordering};
use std::sync::{Condvar, Mutex, MutexGuard};

pub type Tid = usize;
pub type Lid = usize;

#[derive(Clone, Copy, PartialEq, Eq, Debug, Serialize, Deserialize, Hash)]
pub enum RawOp {
    Lock,
    TryLock,
    Unlock,
    LockShared,
    TryLockShared,
    UnlockShared,
    LockExcl,
    TryLockExcl,
    UnlockExcl,
}

impl RawOp {
    pub fn is_blocking(self) -> bool {
        matches!(self, RawOp::Lock | RawOp::LockShared | RawOp::LockExcl)
    }
    pub fn is_try(self) -> bool {
        matches!(self, RawOp::TryLock | RawOp::TryLockShared | RawOp::TryLockExcl)
    }
    pub fn is_release(self) -> bool {
        matches!(self, RawOp::Unlock | RawOp::UnlockShared | RawOp::UnlockExcl)
    }
    pub fn is_shared(self) -> bool {
        matches!(self, RawOp::LockShared | RawOp::TryLockShared | RawOp::UnlockShared)
    }
    pub fn code(self) -> u64 {
        self as u64
    }
    /// which persistent-fault class the op belongs to
    pub fn evil_class(self) -> usize {
        if self.is_blocking() {
            0
        } else if self.is_try() {
            1
        } else {
            2
        }
    }
}

#[derive(Clone, Copy, PartialEq, Eq, Debug, Serialize, Deserialize)]
pub enum When {
    Before,
    After,
}

#[derive(Clone, Copy, PartialEq, Eq, Debug, Serialize, Deserialize)]
pub enum Policy {
    ReaderPref,
    WriterPref,
    /// per lock: bit i of the mask set => writer preferring
    Mixed(u32),
}

#[derive(Clone, Copy, PartialEq, Eq, Debug, Serialize, Deserialize)]
pub enum Strategy {
    Random,
    /// stay on the current thread with probability pct/100
    Sticky(u8),
    /// PCT-style priorities with d change points over an estimated length
    Pct(u8, u16),
    /// run one thread until it blocks, round robin
    RunToBlock,
}

#[derive(Clone, Debug, Serialize, Deserialize, PartialEq)]
pub struct OneShot {
    pub tid: Tid,
    /// index of the API call of that thread (counting every api_begin)
    pub api_idx: u32,
    /// index of the raw op inside that API call
    pub op_idx: u32,
    pub when: When,
}

#[derive(Clone, Debug, Serialize, Deserialize, PartialEq, Default)]
pub struct FaultPlan {
    pub oneshots: Vec<OneShot>,
    /// persistent faults: (lock, [blocking panics, try panics, unlock panics])
    pub evil: Vec<(Lid, [bool; 3])>,
    /// probability (percent) that a grantable try is refused (buggify)
    pub try_refuse_pct: u8,
}

impl FaultPlan {
    pub fn raw_faults(&self) -> bool {
        !self.oneshots.is_empty() || !self.evil.is_empty()
    }
}

#[derive(Clone, Debug, Serialize, Deserialize, PartialEq)]
pub struct RunCfg {
    pub policy: Policy,
    pub strategy: Strategy,
    pub sched_seed: u64,
    pub max_steps: u64,
    pub fair_after: u64,
    pub faults: FaultPlan,
    /// explicit schedule (thread per step, with try-refusal bit). When present the chooser
    /// follows it (guided: if the recorded thread is not enabled, the lowest enabled one).
    pub replay: Option<Vec<(u8, bool)>>,
    pub record_log: bool,
}

#[derive(Clone, Copy, PartialEq, Eq, Debug, Serialize, Deserialize, Hash, PartialOrd, Ord)]
pub enum Clause {
    // C01
    Deadlock,
    SelfWait,
    // C02
    AccessWithoutHold,
    WriteUnderShared,
    Torn,
    StaleValue,
    Misrouted,
    ClosureOutsideHold,
    /// payload reached through a data reference that a scoped closure handed back to its caller
    EscapedAccess,
    // C03
    AcquireWhileHolding,
    KeyBackWhileHolding,
    // C04
    HeldNeLeafset,
    HeldAfterErr,
    BlockingInTry,
    ClosureCount,
    // C05 (C12 under raw faults)
    BadRelease,
    HeldAtEnd,
    // C06
    KeyModel,
    // C07
    DupVerdict,
    // C08
    OrderConflict,
    UnitSplit,
    // C09
    RetryHoldWait,
    NoProgress,
    // C10
    PoisonModel,
    PlainKilled,
    // C11
    LeakAfterUserPanic,
    PayloadLost,
    KeyLostAfterPanic,
    // C12
    RawLeak,
    RawPanicLost,
    FaultedUsable,
    RawDoubleRelease,
    RawCollateralKill,
    // C13
    TryOutcome,
    TryStateChanged,
    // C16
    DropCount,
    RoundTrip,
    // C17
    NonAcqBlocking,
    NonAcqStateChanged,
    /// the raw lock's value was overwritten / re-initialised (no raw operation was issued)
    RawStateOverwritten,
    // harness malfunction (never a violation)
    Harness,
}

#[derive(Clone, Debug, Serialize, Deserialize)]
pub struct Event {
    pub clause: Clause,
    pub step: u64,
    pub tid: Tid,
    pub detail: String,
    /// the thread was unwinding from an injected user panic when the event happened
    #[serde(default)]
    pub during_user_unwind: bool,
}

/// fair phase: a thread is preempted after this many consecutive scheduling points
pub const FAIR_SLICE: u64 = 400;
/// a WaitBlocked wait gives up after this many scheduling steps
pub const WAIT_BLOCKED_PATIENCE: u64 = 600;

#[derive(Clone, Copy, PartialEq, Eq, Debug)]
pub enum Pending {
    None,
    Start,
    Raw { lid: Lid, op: RawOp, fault: Option<When> },
    Yield,
    Gate(usize),
    /// wait until thread `tid` is blocked in a raw acquisition of lock `lid` (or has finished)
    WaitBlocked { tid: Tid, lid: Lid },
    End,
}

#[derive(Clone, Copy, Default, Debug)]
pub struct Grant {
    pub ok: bool,
    pub panic: bool,
}

#[derive(Clone, Copy, PartialEq, Eq, Debug, Serialize, Deserialize)]
pub enum ApiKind {
    /// blocking acquisition (lock/read/scoped_lock/scoped_read)
    Acquire,
    /// try acquisition
    TryAcquire,
    /// release through unlock()/drop of a guard
    Release,
    /// anything that is not an acquisition
    NonAcq,
    /// the harness's own look at a lock after a fault (no monitor applies)
    Probe,
}

#[derive(Clone, Debug)]
pub struct ApiRec {
    pub idx: u32,
    pub kind: ApiKind,
    pub retry: bool,
    pub raw_ops: u32,
    pub blocking_ops: u32,
    /// blocking acquisitions in issue order (lid, shared)
    pub blocking_seq: Vec<(Lid, bool)>,
    /// successful acquisitions (lid, shared)
    pub acquired: Vec<(Lid, bool)>,
    /// releases issued (lid, shared, audit ok)
    pub released: Vec<(Lid, bool, bool)>,
    /// faults fired (lid, op, when)
    pub faults: Vec<(Lid, RawOp, When)>,
    /// the API call is suspended while its scoped closure runs
    pub in_closure: bool,
    /// held set (lid, shared) of the thread when the call began
    pub held_at_begin: Vec<(Lid, bool)>,
    /// a raw *release* panicked inside this call: the other locks the thread held exclusively
    /// at that moment (their holds were live while that panic unwound)
    pub live_excl_at_unlock_fault: Vec<Lid>,
}

#[derive(Default, Debug)]
pub struct ThreadSt {
    pub pending_is: Option<Pending>,
    pub done: bool,
    pub grant: Grant,
    pub api_stack: Vec<ApiRec>,
    pub api_count: u32,
    pub prio: u32,
    /// scheduling step at which the pending operation was published
    pub pending_since: u64,
}

#[derive(Default, Debug, Clone)]
pub struct LockSt {
    pub excl: Option<Tid>,
    pub shared: Vec<Tid>,
    pub evil: [bool; 3],
    /// a raw fault fired on this lock (harness-side knowledge for the relaxed C12 oracle)
    pub faulted: bool,
    /// the fault fired in an unlock op
    pub unlock_faulted: bool,
    /// the thread whose operation the (latest) fault fired in
    pub fault_by: Option<Tid>,
}

#[derive(Default, Debug, Clone, Serialize, Deserialize)]
pub struct Stats {
    pub steps: u64,
    pub raw_ops: u64,
    pub blocked_picks: u64,
    pub switches: u64,
    pub try_fail: u64,
    pub try_refused: u64,
    pub writer_turned_reader_away: u64,
    pub oneshot_fired: u64,
    pub evil_fired: u64,
    pub fair_mode: u64,
    pub yields: u64,
    pub gate_waits: u64,
    pub max_blocked_threads: u64,
    pub dup_checks: u64,
    pub order_checks_tiny: u64,
    pub big_roundtrips: u64,
    pub zst_debug_checks: u64,
    pub default_checks: u64,
    pub dup_pos: u64,
}

pub struct Inner {
    pub cfg: RunCfg,
    pub threads: Vec<ThreadSt>,
    pub locks: Vec<LockSt>,
    pub running: Option<Tid>,
    pub started: usize,
    pub abort: bool,
    pub fair: bool,
    pub rng: Rng,
    pub replay_pos: usize,
    /// the last choice came from the recorded schedule (not from past its end)
    pub replay_live: bool,
    pub gates: Vec<bool>,
    pub events: Vec<Event>,
    pub fp: u64,
    pub log: Vec<u32>,
    pub trace: Vec<(u8, bool)>,
    pub stats: Stats,
    pub ranges: Vec<(usize, usize, Lid)>,
    /// address of the raw lock inside each lock, learnt from its operations (0: not yet seen)
    pub raw_addr: Vec<usize>,
    /// tags whose destructor panics
    pub tag_panicky: Vec<usize>,
    pub pct_changes: Vec<u64>,
    pub shadow: Vec<u64>,
    pub drops: Vec<u32>,
    pub tag_drops: Vec<u32>,
    pub tag_made: Vec<u32>,
    /// (lid index) units: leaves that belong to one owned unit share a unit id (for C09)
    pub unit_of: Vec<Option<usize>>,
    pub monitors_on: bool,
    pub rr_next: usize,
    /// WaitBlocked waits have started to give up (nothing else could run)
    pub wb_giveup: bool,
    /// consecutive picks of the running thread in the fair phase
    pub fair_run: u64,
    /// (thread, api index, kind, raw ops issued) of every finished API call
    pub api_log: Vec<(Tid, u32, ApiKind, u32)>,
    /// raw faults fired so far, per thread
    pub faults_by: Vec<u64>,
    /// set by the workload between an injected user panic and the catch of its unwind
    pub user_unwinding: Vec<bool>,
    /// raw operations issued after the verdict was frozen
    pub abort_ops: u64,
}

pub struct Sched {
    pub inner: Mutex<Inner>,
    cvs: Vec<Condvar>,
    ctl: Condvar,
}

static CUR: AtomicPtr<Sched> = AtomicPtr::new(std::ptr::null_mut());
thread_local! {
    static TID: Cell<usize> = const { Cell::new(usize::MAX) };
}

pub fn install(s: &Sched) {
    CUR.store(s as *const Sched as *mut Sched, Ordering::SeqCst);
}
pub fn uninstall() {
    CUR.store(std::ptr::null_mut(), Ordering::SeqCst);
}
pub fn cur() -> Option<&'static Sched> {
    let p = CUR.load(Ordering::SeqCst);
    if p.is_null() {
        None
    } else {
        Some(unsafe { &*p })
    }
}
pub fn my_tid() -> Option<Tid> {
    let t = TID.with(|t| t.get());
    if t == usize::MAX {
        None
    } else {
        Some(t)
    }
}
pub fn set_tid(t: Option<Tid>) {
    TID.with(|c| c.set(t.unwrap_or(usize::MAX)));
}

impl Inner {
    fn writer_pref(&self, lid: Lid) -> bool {
        match self.cfg.policy {
            Policy::ReaderPref => false,
            Policy::WriterPref => true,
            Policy::Mixed(m) => (m >> (lid as u32 & 31)) & 1 == 1,
        }
    }

    fn writer_waiting(&self, lid: Lid, except: Tid) -> bool {
        self.threads.iter().enumerate().any(|(t, th)| {
            t != except
                && !th.done
                && matches!(th.pending_is, Some(Pending::Raw { lid: l, op: RawOp::LockExcl, fault }) if l == lid && fault != Some(When::Before))
        })
    }

    fn grantable_excl(&self, lid: Lid) -> bool {
        let l = &self.locks[lid];
        l.excl.is_none() && l.shared.is_empty()
    }

    fn grantable_shared(&self, lid: Lid, t: Tid) -> bool {
        let l = &self.locks[lid];
        if l.excl.is_some() {
            return false;
        }
        if self.writer_pref(lid) && self.writer_waiting(lid, t) {
            return false;
        }
        true
    }

    pub fn enabled(&self, t: Tid) -> bool {
        let th = &self.threads[t];
        if th.done {
            return false;
        }
        if self.abort {
            return true;
        }
        match th.pending_is {
            None => false,
            Some(Pending::None) => false,
            Some(Pending::Start) | Some(Pending::Yield) | Some(Pending::End) => true,
            Some(Pending::Gate(g)) => self.gates[g],
            Some(Pending::WaitBlocked { tid, lid }) => {
                let th = &self.threads[tid];
                // "wait until that thread is blocked on that lock" is how scenarios arrange
                // contention; it must not turn into a demand on *where* the library waits, so it
                // gives up after a while
                th.done
                    || self.wb_giveup
                    || self.stats.steps.saturating_sub(self.threads[t].pending_since) > WAIT_BLOCKED_PATIENCE
                    || match th.pending_is {
                        Some(Pending::Raw { lid: l, op, fault }) if l == lid && op.is_blocking() && fault != Some(When::Before) => match op {
                            RawOp::LockShared => !self.grantable_shared(lid, tid),
                            _ => !self.grantable_excl(lid),
                        },
                        _ => false,
                    }
            }
            Some(Pending::Raw { lid, op, fault }) => {
                if fault == Some(When::Before) {
                    return true;
                }
                match op {
                    RawOp::Lock | RawOp::LockExcl => self.grantable_excl(lid),
                    RawOp::LockShared => self.grantable_shared(lid, t),
                    _ => true,
                }
            }
        }
    }

    pub fn held_by(&self, t: Tid) -> Vec<(Lid, bool)> {
        let mut v = Vec::new();
        for (lid, l) in self.locks.iter().enumerate() {
            if l.excl == Some(t) {
                v.push((lid, false));
            }
            for &s in &l.shared {
                if s == t {
                    v.push((lid, true));
                }
            }
        }
        v
    }

    pub fn holds(&self, t: Tid, lid: Lid) -> Option<bool> {
        let l = &self.locks[lid];
        if l.excl == Some(t) {
            Some(false)
        } else if l.shared.contains(&t) {
            Some(true)
        } else {
            None
        }
    }

    pub fn owner_table(&self) -> Vec<(Option<Tid>, Vec<Tid>)> {
        self.locks.iter().map(|l| (l.excl, { let mut s = l.shared.clone(); s.sort(); s })).collect()
    }

    pub fn event(&mut self, clause: Clause, tid: Tid, detail: String) {
        if !self.monitors_on && clause != Clause::Harness {
            return;
        }
        if self.events.len() < 8 {
            let step = self.stats.steps;
            let during_user_unwind = self.user_unwinding.get(tid).copied().unwrap_or(false);
            self.events.push(Event { clause, step, tid, detail, during_user_unwind });
        }
    }

    fn decisive(&mut self) {
        // freeze the verdict: nothing after this is looked at
        self.abort = true;
        self.monitors_on = false;
    }

    fn logev(&mut self, t: Tid, code: u64, lid: u64, res: u64) {
        let w = ((t as u64) << 24) | (code << 16) | (lid << 8) | res;
        self.fp = fnv(self.fp, w);
        if self.cfg.record_log {
            self.log.push(w as u32);
        }
    }

    fn lid_of(&self, addr: usize) -> Option<Lid> {
        self.ranges.iter().find(|(a, b, _)| *a <= addr && addr < *b).map(|r| r.2)
    }

    /// choose the next thread; `cur` is the thread that just published (if any)
    fn choose(&mut self, enabled: &[Tid], cur: Option<Tid>) -> Tid {
        debug_assert!(!enabled.is_empty());
        if let Some(rp) = &self.cfg.replay {
            if self.replay_pos < rp.len() {
                let want = rp[self.replay_pos].0 as usize;
                self.replay_pos += 1;
                self.replay_live = true;
                if enabled.contains(&want) {
                    return want;
                }
                return enabled[0];
            }
            // past the end of the recorded schedule: run to block, lowest first
            self.replay_live = false;
            if let Some(c) = cur {
                if enabled.contains(&c) {
                    return c;
                }
            }
            return enabled[0];
        }
        let strat = if self.fair { Strategy::RunToBlock } else { self.cfg.strategy };
        match strat {
            Strategy::Random => enabled[self.rng.below(enabled.len())],
            Strategy::Sticky(p) => {
                if let Some(c) = cur {
                    if enabled.contains(&c) && (enabled.len() == 1 || self.rng.chance(p as u32, 100)) {
                        return c;
                    }
                    let others: Vec<Tid> = enabled.iter().copied().filter(|&t| t != c).collect();
                    if !others.is_empty() {
                        return others[self.rng.below(others.len())];
                    }
                }
                enabled[self.rng.below(enabled.len())]
            }
            Strategy::Pct(_, _) => {
                let step = self.stats.steps;
                if self.pct_changes.contains(&step) {
                    if let Some(c) = cur {
                        // demote the running thread below everyone
                        let min = self.threads.iter().map(|t| t.prio).min().unwrap_or(0);
                        self.threads[c].prio = min.saturating_sub(1);
                    }
                }
                *enabled.iter().max_by_key(|&&t| self.threads[t].prio).unwrap()
            }
            Strategy::RunToBlock => {
                if let Some(c) = cur {
                    // in the fair phase a thread that never blocks (it spins) gives way after a
                    // while, so that whoever it is waiting for can finish
                    let keep = !self.fair || self.fair_run < FAIR_SLICE;
                    if enabled.contains(&c) && keep {
                        self.fair_run += 1;
                        return c;
                    }
                }
                self.fair_run = 0;
                let n = self.threads.len();
                for k in 0..n {
                    let t = (self.rr_next + k) % n;
                    if enabled.contains(&t) {
                        self.rr_next = (t + 1) % n;
                        return t;
                    }
                }
                enabled[0]
            }
        }
    }

    fn refuse_try(&mut self) -> bool {
        if self.fair || self.abort {
            return false;
        }
        if let Some(rp) = &self.cfg.replay {
            // the refusal bit belongs to the entry just consumed
            let p = self.replay_pos;
            return self.replay_live && p > 0 && p <= rp.len() && rp[p - 1].1;
        }
        let pct = self.cfg.faults.try_refuse_pct;
        pct > 0 && self.rng.chance(pct as u32, 100)
    }

    /// apply the effect of thread t's pending op (t has just been picked)
    fn apply(&mut self, t: Tid) {
        let p = self.threads[t].pending_is.take().unwrap_or(Pending::None);
        let mut grant = Grant { ok: true, panic: false };
        let mut refused = false;
        match p {
            Pending::Raw { lid, op, fault } => {
                self.stats.raw_ops += 1;
                if self.abort {
                    self.threads[t].grant = grant;
                    self.trace.push((t as u8, false));
                    return;
                }
                if fault == Some(When::Before) {
                    grant.panic = true;
                    grant.ok = false;
                    self.note_fault(t, lid, op, When::Before);
                } else {
                    match op {
                        RawOp::Lock | RawOp::LockExcl => {
                            self.locks[lid].excl = Some(t);
                            self.note_acq(t, lid, false, true);
                        }
                        RawOp::LockShared => {
                            self.locks[lid].shared.push(t);
                            self.note_acq(t, lid, true, true);
                        }
                        RawOp::TryLock | RawOp::TryLockExcl => {
                            let mut ok = self.grantable_excl(lid);
                            if ok && self.refuse_try() {
                                ok = false;
                                refused = true;
                                self.stats.try_refused += 1;
                            }
                            if ok {
                                self.locks[lid].excl = Some(t);
                                self.note_acq(t, lid, false, false);
                            } else {
                                self.stats.try_fail += 1;
                            }
                            grant.ok = ok;
                        }
                        RawOp::TryLockShared => {
                            let free = self.locks[lid].excl.is_none();
                            let mut ok = self.grantable_shared(lid, t);
                            if free && !ok {
                                self.stats.writer_turned_reader_away += 1;
                            }
                            if ok && self.refuse_try() {
                                ok = false;
                                refused = true;
                                self.stats.try_refused += 1;
                            }
                            if ok {
                                self.locks[lid].shared.push(t);
                                self.note_acq(t, lid, true, false);
                            } else {
                                self.stats.try_fail += 1;
                            }
                            grant.ok = ok;
                        }
                        RawOp::Unlock | RawOp::UnlockExcl => {
                            let ok = self.locks[lid].excl == Some(t);
                            if !ok {
                                let st = format!(
                                    "thread {} issued {:?} on lock {} which it does not hold exclusively (excl={:?} shared={:?})",
                                    t, op, lid, self.locks[lid].excl, self.locks[lid].shared
                                );
                                self.event(Clause::BadRelease, t, st);
                            }
                            if self.locks[lid].excl.is_some() {
                                self.locks[lid].excl = None;
                            } else {
                                // an exclusive release of a lock that is only held shared wipes the
                                // lock word (what parking_lot does): every reader's hold is gone
                                self.locks[lid].shared.clear();
                            }
                            self.note_rel(t, lid, false, ok);
                        }
                        RawOp::UnlockShared => {
                            let pos = self.locks[lid].shared.iter().position(|&x| x == t);
                            let ok = pos.is_some();
                            if !ok {
                                let st = format!(
                                    "thread {} issued UnlockShared on lock {} which it does not hold shared (excl={:?} shared={:?})",
                                    t, lid, self.locks[lid].excl, self.locks[lid].shared
                                );
                                self.event(Clause::BadRelease, t, st);
                            }
                            if let Some(pos) = pos {
                                self.locks[lid].shared.remove(pos);
                            } else if self.locks[lid].excl.is_none() && !self.locks[lid].shared.is_empty() {
                                // somebody else's shared hold is consumed
                                self.locks[lid].shared.remove(0);
                            }
                            // a shared release of an exclusively held lock does not clear the
                            // writer: the lock stays held
                            self.note_rel(t, lid, true, ok);
                        }
                    }
                    if fault == Some(When::After) {
                        grant.panic = true;
                        self.note_fault(t, lid, op, When::After);
                    }
                }
                self.logev(t, op.code(), lid as u64, (grant.ok as u64) | ((grant.panic as u64) << 1));
            }
            Pending::Yield => {
                self.stats.yields += 1;
                self.logev(t, 20, 0, 0);
            }
            Pending::Gate(g) => {
                self.stats.gate_waits += 1;
                self.logev(t, 21, g as u64, 0);
            }
            Pending::WaitBlocked { tid, lid } => {
                self.stats.gate_waits += 1;
                self.logev(t, 24, lid as u64, tid as u64);
            }
            Pending::Start => self.logev(t, 22, 0, 0),
            Pending::End => self.logev(t, 23, 0, 0),
            Pending::None => {}
        }
        if let Pending::Raw { lid, .. } = p {
            self.sync_mirror(lid);
        }
        self.threads[t].grant = grant;
        self.trace.push((t as u8, refused));
    }

    /// write the state of lock `lid` into the byte inside its raw lock (the thread whose
    /// operation is being applied is inside a call on that raw lock, so it is alive)
    fn sync_mirror(&self, lid: Lid) {
        let a = self.raw_addr[lid];
        if a != 0 && !self.abort {
            let l = &self.locks[lid];
            let m = if l.excl.is_some() { 255 } else { l.shared.len().min(254) as u8 };
            unsafe { (*(a as *const std::sync::atomic::AtomicU8)).store(m, std::sync::atomic::Ordering::Relaxed) };
        }
    }

    fn note_acq(&mut self, t: Tid, lid: Lid, shared: bool, blocking: bool) {
        if let Some(r) = self.threads[t].api_stack.iter_mut().rev().find(|r| !r.in_closure) {
            r.acquired.push((lid, shared));
            let _ = blocking;
        }
    }
    fn note_rel(&mut self, t: Tid, lid: Lid, shared: bool, ok: bool) {
        if let Some(r) = self.threads[t].api_stack.iter_mut().rev().find(|r| !r.in_closure) {
            r.released.push((lid, shared, ok));
        }
    }
    fn note_fault(&mut self, t: Tid, lid: Lid, op: RawOp, when: When) {
        self.locks[lid].faulted = true;
        self.locks[lid].fault_by = Some(t);
        self.faults_by[t] += 1;
        if op.is_release() {
            self.locks[lid].unlock_faulted = true;
        }
        let live: Vec<Lid> = if op.is_release() { self.held_by(t).into_iter().filter(|(l, sh)| !*sh && *l != lid).map(|(l, _)| l).collect() } else { Vec::new() };
        if let Some(r) = self.threads[t].api_stack.iter_mut().rev().find(|r| !r.in_closure) {
            r.faults.push((lid, op, when));
            if r.live_excl_at_unlock_fault.is_empty() {
                r.live_excl_at_unlock_fault = live;
            }
        }
    }
}

/// payload used to unwind a thread out of an endless loop once the run's verdict is frozen
#[derive(Debug)]
pub struct AbortEscape;

pub struct RunOutcome {
    pub events: Vec<Event>,
    pub fp: u64,
    pub log: Vec<u32>,
    pub trace: Vec<(u8, bool)>,
    pub stats: Stats,
    pub drops: Vec<u32>,
    pub tag_drops: Vec<u32>,
    pub final_owner: Vec<(Option<Tid>, Vec<Tid>)>,
    pub api_log: Vec<(Tid, u32, ApiKind, u32)>,
}

impl Sched {
    pub fn new(cfg: RunCfg, nthreads: usize, nlocks: usize, ngates: usize) -> Sched {
        let mut rng = Rng::new(cfg.sched_seed);
        let mut threads: Vec<ThreadSt> = (0..nthreads).map(|_| ThreadSt::default()).collect();
        let mut pct_changes = Vec::new();
        if let Strategy::Pct(d, len) = cfg.strategy {
            let mut prios: Vec<u32> = (0..nthreads as u32).map(|i| 1000 + i).collect();
            rng.shuffle(&mut prios);
            for (t, p) in threads.iter_mut().zip(prios) {
                t.prio = p;
            }
            for _ in 0..d {
                pct_changes.push(rng.below(len.max(1) as usize) as u64);
            }
        }
        let mut locks = vec![LockSt::default(); nlocks];
        for (lid, e) in &cfg.faults.evil {
            if *lid < nlocks {
                locks[*lid].evil = *e;
            }
        }
        Sched {
            inner: Mutex::new(Inner {
                cfg,
                threads,
                locks,
                running: None,
                started: 0,
                abort: false,
                fair: false,
                rng,
                replay_pos: 0,
                replay_live: false,
                gates: vec![false; ngates],
                events: Vec::new(),
                fp: FNV0,
                log: Vec::new(),
                trace: Vec::new(),
                stats: Stats::default(),
                ranges: Vec::new(),
                raw_addr: vec![0; nlocks],
                tag_panicky: Vec::new(),
                pct_changes,
                shadow: vec![0; nlocks],
                drops: vec![0; nlocks],
                tag_drops: Vec::new(),
                tag_made: Vec::new(),
                unit_of: vec![None; nlocks],
                monitors_on: true,
                rr_next: 0,
                wb_giveup: false,
                fair_run: 0,
                api_log: Vec::new(),
                faults_by: vec![0; nthreads],
                user_unwinding: vec![false; nthreads],
                abort_ops: 0,
            }),
            cvs: (0..nthreads).map(|_| Condvar::new()).collect(),
            ctl: Condvar::new(),
        }
    }

    pub fn lock(&self) -> MutexGuard<'_, Inner> {
        self.inner.lock().unwrap_or_else(|e| e.into_inner())
    }

    pub fn register_range(&self, start: usize, end: usize, lid: Lid) {
        let mut g = self.lock();
        g.ranges.retain(|r| r.2 != lid);
        g.ranges.push((start, end, lid));
    }

    /// pick the next thread and hand over the baton. Called with the lock held by the thread
    /// that just published (or by the controller at start).
    fn pick_next(&self, g: &mut Inner, cur: Option<Tid>) {
        let n = g.threads.len();
        if g.threads.iter().all(|t| t.done) {
            g.running = None;
            self.ctl.notify_all();
            return;
        }
        if !g.abort {
            g.stats.steps += 1;
            if !g.fair && g.stats.steps > g.cfg.fair_after {
                g.fair = true;
                g.stats.fair_mode = 1;
            }
            if g.stats.steps > g.cfg.max_steps {
                let retry = g.threads.iter().any(|t| t.api_stack.iter().any(|r| r.retry));
                let clause = if retry { Clause::NoProgress } else { Clause::Harness };
                let d = format!("step bound {} exceeded (fair run-to-block since step {})", g.cfg.max_steps, g.cfg.fair_after);
                g.event(clause, cur.unwrap_or(0), d);
                g.decisive();
            }
        }
        let mut enabled: Vec<Tid> = (0..n).filter(|&t| g.enabled(t)).collect();
        if enabled.is_empty() {
            // a scenario's "wait until that thread is blocked on that lock" never counts as
            // waiting for a lock: with nothing else to run, such waits give up first
            enabled = (0..n).filter(|&t| !g.threads[t].done && matches!(g.threads[t].pending_is, Some(Pending::WaitBlocked { .. }))).collect();
            if !enabled.is_empty() {
                g.wb_giveup = true;
            }
        }
        if enabled.is_empty() {
            // deadlock: every unfinished thread waits
            let mut d = String::from("no enabled thread:");
            for (t, th) in g.threads.iter().enumerate() {
                if !th.done {
                    d.push_str(&format!(" T{}:{:?} holds {:?};", t, th.pending_is, g.held_by(t)));
                }
            }
            g.event(Clause::Deadlock, cur.unwrap_or(0), d);
            g.decisive();
            enabled = (0..n).filter(|&t| g.enabled(t)).collect();
        }
        let blocked = (0..n).filter(|&t| !g.threads[t].done).count() - enabled.len();
        if (blocked as u64) > g.stats.max_blocked_threads {
            g.stats.max_blocked_threads = blocked as u64;
        }
        if blocked > 0 {
            g.stats.blocked_picks += 1;
        }
        let next = if g.abort { enabled[0] } else { g.choose(&enabled, cur) };
        if cur.is_some() && cur != Some(next) {
            g.stats.switches += 1;
        }
        g.apply(next);
        g.running = Some(next);
        if Some(next) != cur {
            self.cvs[next].notify_all();
        }
    }

    /// a simulated thread publishes an op and waits until it is picked
    fn sched_point(&self, me: Tid, p: Pending) -> Grant {
        let mut g = self.lock();
        if g.abort {
            // run-to-completion: no switching, everything granted
            return Grant { ok: true, panic: false };
        }
        g.threads[me].pending_is = Some(p);
        g.threads[me].pending_since = g.stats.steps;
        self.pick_next(&mut g, Some(me));
        while g.running != Some(me) {
            g = self.cvs[me].wait(g).unwrap_or_else(|e| e.into_inner());
        }
        g.threads[me].grant
    }

    pub fn thread_start(&self, me: Tid) {
        set_tid(Some(me));
        let mut g = self.lock();
        g.threads[me].pending_is = Some(Pending::Start);
        g.started += 1;
        self.ctl.notify_all();
        while g.running != Some(me) {
            g = self.cvs[me].wait(g).unwrap_or_else(|e| e.into_inner());
        }
    }

    pub fn thread_end(&self, me: Tid) {
        let mut g = self.lock();
        g.threads[me].done = true;
        g.threads[me].pending_is = None;
        let e = g.stats.steps;
        let _ = e;
        g.logev(me, 23, 0, 0);
        self.pick_next(&mut g, Some(me));
        set_tid(None);
    }

    /// controller: wait for all threads to be parked at Start, run, wait for completion
    pub fn run_all(&self) {
        let mut g = self.lock();
        let n = g.threads.len();
        while g.started < n {
            g = self.ctl.wait(g).unwrap_or_else(|e| e.into_inner());
        }
        self.pick_next(&mut g, None);
        while !(g.running.is_none() && g.threads.iter().all(|t| t.done)) {
            g = self.ctl.wait(g).unwrap_or_else(|e| e.into_inner());
        }
    }

    pub fn outcome(&self) -> RunOutcome {
        let mut g = self.lock();
        RunOutcome {
            events: std::mem::take(&mut g.events),
            fp: g.fp,
            log: std::mem::take(&mut g.log),
            trace: std::mem::take(&mut g.trace),
            stats: g.stats.clone(),
            drops: g.drops.clone(),
            tag_drops: g.tag_drops.clone(),
            final_owner: g.owner_table(),
            api_log: std::mem::take(&mut g.api_log),
        }
    }

    // ---- entry points used by the raw locks and the workload ----

    /// what the byte inside the raw lock at `addr` should read now (None: unknown lock or verdict frozen)
    pub fn mirror_at(&self, addr: usize) -> Option<u8> {
        let g = self.lock();
        // under injected raw-lock faults the harness itself tidies the owner table after a
        // fault, without operating the lock: the byte is not comparable there
        if g.abort || g.cfg.faults.raw_faults() {
            return None;
        }
        let lid = g.lid_of(addr)?;
        let l = &g.locks[lid];
        Some(if l.excl.is_some() { 255 } else { l.shared.len().min(254) as u8 })
    }

    /// the raw lock's own byte must agree with the owner table: anything else means the lock
    /// value was overwritten or re-initialised behind the back of its operations
    pub fn check_mirror(&self, addr: usize, seen: u8, when: &str) {
        let expect = match self.mirror_at(addr) {
            Some(e) => e,
            None => return,
        };
        if seen != expect {
            let mut g = self.lock();
            if g.monitors_on && !g.abort {
                let lid = g.lid_of(addr).unwrap_or(usize::MAX);
                let d = format!("the raw lock of lock {} reads {} {} but the owner table says {} (0 free, 255 exclusive, n readers): its value was overwritten or re-initialised while {}", lid, seen, when, expect, if expect == 0 { "free" } else { "held" });
                let me = my_tid().unwrap_or(0);
                g.event(Clause::RawStateOverwritten, me, d);
            }
        }
    }

    pub fn raw(&self, addr: usize, op: RawOp) -> Grant {
        let me = match my_tid() {
            Some(t) => t,
            None => panic!("happysim: raw lock op {:?} outside a simulated thread", op),
        };
        let pending;
        {
            let mut g = self.lock();
            if g.abort {
                // the verdict is frozen and every operation is granted; code that keeps spinning
                // on state of its own (a killed lock it will never get) is unwound out of the loop
                g.abort_ops += 1;
                if g.abort_ops % 20_000 == 0 {
                    drop(g);
                    std::panic::resume_unwind(Box::new(AbortEscape));
                }
                return Grant { ok: true, panic: false };
            }
            let lid = match g.lid_of(addr) {
                Some(l) => l,
                None => {
                    g.event(Clause::Harness, me, format!("raw op {:?} on unregistered lock address", op));
                    g.decisive();
                    return Grant { ok: true, panic: false };
                }
            };
            g.raw_addr[lid] = addr;
            // API-call bookkeeping and publish-time monitors
            let held = g.held_by(me);
            let nsteps = g.stats.steps;
            let _ = nsteps;
            let mut fault = None;
            let mut ev: Vec<(Clause, String)> = Vec::new();
            let unit_of = g.unit_of.clone();
            let evil = g.locks[lid].evil[op.evil_class()];
            let oneshots = g.cfg.faults.oneshots.clone();
            if let Some(rec) = g.threads[me].api_stack.iter_mut().rev().find(|r| !r.in_closure) {
                if rec.raw_ops == 0 && matches!(rec.kind, ApiKind::Acquire | ApiKind::TryAcquire) && !held.is_empty() {
                    ev.push((
                        Clause::AcquireWhileHolding,
                        format!("API call #{} ({:?}) issues its first raw op {:?} on lock {} while the thread still holds {:?}", rec.idx, rec.kind, op, lid, held),
                    ));
                }
                if op.is_blocking() {
                    rec.blocking_ops += 1;
                    rec.blocking_seq.push((lid, op.is_shared()));
                    if rec.kind == ApiKind::TryAcquire {
                        ev.push((Clause::BlockingInTry, format!("try_* API call #{} issued blocking raw op {:?} on lock {}", rec.idx, op, lid)));
                    }
                    if rec.kind == ApiKind::NonAcq {
                        ev.push((Clause::NonAcqBlocking, format!("non-acquiring API call #{} issued blocking raw op {:?} on lock {}", rec.idx, op, lid)));
                    }
                }
                for o in &oneshots {
                    if o.tid == me && o.api_idx == rec.idx && o.op_idx == rec.raw_ops {
                        fault = Some(o.when);
                    }
                }
                rec.raw_ops += 1;
                let _ = &unit_of;
            }
            if evil {
                fault = Some(When::Before);
            }
            if fault.is_some() {
                if evil {
                    g.stats.evil_fired += 1;
                } else {
                    g.stats.oneshot_fired += 1;
                }
            }
            for (c, d) in ev {
                g.event(c, me, d);
            }
            // self-wait: a blocking op on a lock the caller itself holds can never be granted
            if op.is_blocking() && fault != Some(When::Before) {
                let l = &g.locks[lid];
                let selfwait = match op {
                    RawOp::Lock | RawOp::LockExcl => l.excl == Some(me) || l.shared.contains(&me),
                    RawOp::LockShared => l.excl == Some(me),
                    _ => false,
                };
                if selfwait {
                    let d = format!("thread {} issues blocking {:?} on lock {} which it holds itself (excl={:?} shared={:?})", me, op, lid, l.excl, l.shared);
                    g.event(Clause::SelfWait, me, d);
                    g.decisive();
                    return Grant { ok: true, panic: false };
                }
                // C09: a retrying acquisition must hold nothing when it has to wait
                let grantable = match op {
                    RawOp::Lock | RawOp::LockExcl => g.grantable_excl(lid),
                    _ => g.grantable_shared(lid, me),
                };
                if !grantable {
                    let retry = g.threads[me].api_stack.iter().rev().find(|r| !r.in_closure).map(|r| r.retry).unwrap_or(false);
                    if retry {
                        // holding other members of the same owned unit while waiting inside the unit is by design
                        let u = g.unit_of[lid];
                        let outside: Vec<(Lid, bool)> = held.iter().copied().filter(|(h, _)| u.is_none() || g.unit_of[*h] != u).collect();
                        if !outside.is_empty() {
                            let d = format!("retrying acquisition waits for lock {} ({:?}) while holding {:?}", lid, op, outside);
                            g.event(Clause::RetryHoldWait, me, d);
                        }
                    }
                }
            }
            pending = Pending::Raw { lid, op, fault };
        }
        let g = self.sched_point(me, pending);
        if op.is_release() {
            // a second scheduling point right after the release took effect: whatever the
            // releasing thread still does (set a poison flag, give a key back) can then be
            // overtaken by a thread that was waiting for this lock
            self.sched_point(me, Pending::Yield);
        }
        g
    }

    pub fn yield_point(&self) {
        if let Some(me) = my_tid() {
            self.sched_point(me, Pending::Yield);
        }
    }

    pub fn gate_wait(&self, gate: usize) {
        if let Some(me) = my_tid() {
            self.sched_point(me, Pending::Gate(gate));
        }
    }

    pub fn wait_blocked(&self, tid: Tid, lid: Lid) {
        if let Some(me) = my_tid() {
            self.sched_point(me, Pending::WaitBlocked { tid, lid });
        }
    }

    pub fn gate_open(&self, gate: usize) {
        let mut g = self.lock();
        g.gates[gate] = true;
    }

    pub fn api_begin(&self, kind: ApiKind, retry: bool) -> u32 {
        let me = my_tid().expect("api_begin outside simulated thread");
        let mut g = self.lock();
        let held = g.held_by(me);
        let th = &mut g.threads[me];
        let idx = th.api_count;
        th.api_count += 1;
        th.api_stack.push(ApiRec {
            idx,
            kind,
            retry,
            raw_ops: 0,
            blocking_ops: 0,
            blocking_seq: Vec::new(),
            acquired: Vec::new(),
            released: Vec::new(),
            faults: Vec::new(),
            in_closure: false,
            held_at_begin: held,
            live_excl_at_unlock_fault: Vec::new(),
        });
        idx
    }

    pub fn api_end(&self) -> ApiRec {
        let me = my_tid().expect("api_end outside simulated thread");
        let mut g = self.lock();
        let r = g.threads[me].api_stack.pop().expect("api_end without api_begin");
        g.api_log.push((me, r.idx, r.kind, r.raw_ops));
        r
    }

    pub fn faults_fired_by_me(&self) -> u64 {
        let me = my_tid().expect("faults_fired_by_me outside simulated thread");
        self.lock().faults_by[me]
    }

    /// number of API records currently open on this thread
    pub fn api_depth(&self) -> usize {
        let me = my_tid().expect("api_depth outside simulated thread");
        self.lock().threads[me].api_stack.len()
    }

    /// drop API records down to `depth` (after an unwind crossed them); returns them, innermost first
    pub fn api_unwind_to(&self, depth: usize) -> Vec<ApiRec> {
        let me = my_tid().expect("api_unwind_to outside simulated thread");
        let mut g = self.lock();
        let mut v = Vec::new();
        while g.threads[me].api_stack.len() > depth {
            let r = g.threads[me].api_stack.pop().unwrap();
            g.api_log.push((me, r.idx, r.kind, r.raw_ops));
            v.push(r);
        }
        v
    }

    pub fn closure_enter(&self) {
        let me = my_tid().expect("closure_enter outside simulated thread");
        let mut g = self.lock();
        if let Some(r) = g.threads[me].api_stack.last_mut() {
            r.in_closure = true;
        }
    }

    pub fn closure_exit(&self) {
        let me = my_tid().expect("closure_exit outside simulated thread");
        let mut g = self.lock();
        if let Some(r) = g.threads[me].api_stack.iter_mut().rev().find(|r| r.in_closure) {
            r.in_closure = false;
        }
    }

    /// blocking acquisitions issued so far by the innermost API call that is running its closure
    pub fn api_closure_blocking_seq(&self) -> Vec<(Lid, bool)> {
        let me = my_tid().expect("api_closure_blocking_seq outside simulated thread");
        let g = self.lock();
        g.threads[me].api_stack.iter().rev().find(|r| r.in_closure).map(|r| r.blocking_seq.clone()).unwrap_or_default()
    }

    pub fn api_closure_acquired(&self) -> Vec<(Lid, bool)> {
        let me = my_tid().expect("api_closure_acquired outside simulated thread");
        let g = self.lock();
        g.threads[me].api_stack.iter().rev().find(|r| r.in_closure).map(|r| r.acquired.clone()).unwrap_or_default()
    }

    pub fn held(&self) -> Vec<(Lid, bool)> {
        let me = my_tid().expect("held outside simulated thread");
        self.lock().held_by(me)
    }

    pub fn report(&self, clause: Clause, detail: String) {
        let me = my_tid().unwrap_or(0);
        self.lock().event(clause, me, detail);
    }

    pub fn set_user_unwinding(&self, v: bool) {
        if let Some(me) = my_tid() {
            self.lock().user_unwinding[me] = v;
        }
    }

    pub fn aborted(&self) -> bool {
        self.lock().abort
    }
}
