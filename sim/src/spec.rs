//! Fully explicit, serialisable description of one simulated run: the world (locks, memory
//! placement, collections), the per-thread programs, and the run configuration. This is what
//! a replay file carries.

use crate::sched::{Lid, RunCfg};
use crate::shape::{ContKind, LeafKind};
use serde::{Deserialize, Serialize};

#[derive(Clone, Copy, PartialEq, Eq, Debug, Serialize, Deserialize, Hash, PartialOrd, Ord)]
pub enum CollKind {
    Boxed,
    Ref,
    Retry,
}

#[derive(Clone, PartialEq, Eq, Debug, Serialize, Deserialize)]
pub struct UnitSpec {
    pub cont: ContKind,
    pub leaves: Vec<Lid>,
    /// the unit holds `&mut` borrows of arena leaves (which keep slots of their own, so the
    /// listing order is independent of the address order) instead of owning them by value
    #[serde(default)]
    pub by_ref: bool,
}

#[derive(Clone, Copy, PartialEq, Eq, Debug, Serialize, Deserialize)]
pub enum Slot {
    Leaf(Lid),
    Unit(usize),
}

#[derive(Clone, PartialEq, Eq, Debug, Serialize, Deserialize)]
pub enum TSpec {
    Leaf(Lid),
    Unit(usize),
    Coll { kind: CollKind, cont: ContKind, members: Vec<TSpec>, poison: bool },
    /// `&node` of an earlier shared target
    Shared(usize),
    /// a collection that owns its (heap-placed) leaves; top-level targets only
    Own { kind: OwnKind, cont: ContKind, leaves: Vec<Lid>, ctor: Ctor, poison: bool },
    /// member wrapped in a drop-counting tag
    Tagged(usize, Box<TSpec>),
    /// a collection over `&mut &Leaf` members (mutable borrows of *shared* references, which
    /// may repeat). Built with `new` if the compiler accepts the data as `OwnedLockable`
    /// (it must not), otherwise with the checked constructor.
    MutRefs { kind: OwnKind, cont: ContKind, members: Vec<Lid> },
    /// a bare container nested as a member (`(A, Vec<B>)`, `[Vec<_>; 2]`, ...): no collection around it
    Group { cont: ContKind, members: Vec<TSpec> },
    /// a collection built with the unchecked-at-runtime constructors (`new` / `new_ref` /
    /// `From<&L>`) over shared owned data `datas[data]` (a container of `&mut` leaves)
    OnData {
        data: usize,
        kind: CollKind,
        from: bool,
        poison: bool,
        /// built with the public `unsafe fn new_unchecked` (sound here: owned data has no duplicates)
        #[serde(default)]
        unchecked: bool,
    },
    /// a collection whose child is a plain `Vec<&Leaf>` / `Box<[&Leaf]>` of the library's own
    /// impls (its guard is the library's guard for slices, not a harness container); top level only
    Slice {
        kind: CollKind,
        boxed: bool,
        members: Vec<Lid>,
        poison: bool,
        /// the child is a plain array `[&Leaf; N]` (N = 2 boxed, N = 3 retrying) instead of a list
        #[serde(default)]
        array: bool,
    },
    /// a sorting collection over the members of by-reference unit `unit`, reached through
    /// whatever shared access the owned collection gives to its child. It must give none (an
    /// owned collection locks in listing order): the target then does not exist.
    Exposed { unit: usize },
}

#[derive(Clone, Copy, PartialEq, Eq, Debug, Serialize, Deserialize, Hash, PartialOrd, Ord)]
pub enum OwnKind {
    Boxed,
    Ref,
    Retry,
    Owned,
}

#[derive(Clone, Copy, PartialEq, Eq, Debug, Serialize, Deserialize, Hash, PartialOrd, Ord)]
pub enum Ctor {
    New,
    From,
    FromIter,
    TryNew,
    /// build with all but the last k leaves, then `extend` with the rest
    NewThenExtend(usize),
    /// `Default::default()` (empty collections only)
    Default,
    /// like NewThenExtend, but first `extend` is called with an iterator that panics before it
    /// yields anything (the panic is caught); then the real items are added
    NewThenExtendPanicky(usize),
}

#[derive(Clone, Copy, PartialEq, Eq, Debug, Serialize, Deserialize, Hash, PartialOrd, Ord)]
pub enum Dtor {
    Drop,
    IntoChild,
    IntoInner,
    IntoIter,
    GetMut,
    ChildMut,
    /// `iter_mut()` / `(&mut c).into_iter()` (retrying collection)
    IterMut,
    /// `AsMut::as_mut` (owned and retrying collections)
    AsMut,
}

#[derive(Clone, PartialEq, Eq, Debug, Serialize, Deserialize)]
pub struct WorldSpec {
    /// logical leaf locks
    pub leaves: Vec<LeafKind>,
    /// owned collections; each owns its leaves
    pub units: Vec<UnitSpec>,
    /// memory placement: arena order == address order
    pub slots: Vec<Slot>,
    /// shared targets, built before the threads start
    pub targets: Vec<TSpec>,
    /// owned data: containers of `&mut` arena leaves (listing order chosen freely), shared
    /// by reference between the collections built over them
    #[serde(default)]
    pub datas: Vec<UnitSpec>,
    pub gates: usize,
    /// number of drop-counting tags used by `TSpec::Tagged`
    #[serde(default)]
    pub tags: usize,
    /// tags whose destructor panics (once, and not while the thread is already unwinding): the
    /// value they are attached to has a panicking `Drop`
    #[serde(default)]
    pub panicky_tags: Vec<usize>,
}

#[derive(Clone, Copy, PartialEq, Eq, Debug, Serialize, Deserialize, Hash, PartialOrd, Ord)]
pub enum Api {
    Lock,
    TryLock,
    Read,
    TryRead,
    ScopedLock,
    ScopedTryLock,
    ScopedRead,
    ScopedTryRead,
}

impl Api {
    pub const ALL: [Api; 8] = [Api::Lock, Api::TryLock, Api::Read, Api::TryRead, Api::ScopedLock, Api::ScopedTryLock, Api::ScopedRead, Api::ScopedTryRead];
    pub fn is_read(self) -> bool {
        matches!(self, Api::Read | Api::TryRead | Api::ScopedRead | Api::ScopedTryRead)
    }
    pub fn is_try(self) -> bool {
        matches!(self, Api::TryLock | Api::TryRead | Api::ScopedTryLock | Api::ScopedTryRead)
    }
    pub fn is_scoped(self) -> bool {
        matches!(self, Api::ScopedLock | Api::ScopedTryLock | Api::ScopedRead | Api::ScopedTryRead)
    }
}

#[derive(Clone, Copy, PartialEq, Eq, Debug, Serialize, Deserialize)]
pub enum Release {
    Drop,
    Unlock,
    Forget,
    /// the guard is stored in a user value whose destructor passes it to `unlock` (runs on
    /// return and, if the section panics, during the unwind)
    UnlockInDrop,
    /// the guard is moved to another thread, which drops it (possible only if the guard, key
    /// and all, is Send; otherwise it is dropped here)
    SendAway,
    /// the guard is consumed by value through `IntoIterator` (if its type offers that), the
    /// items are kept and the iterator is dropped; otherwise the guard is dropped
    TakeApart,
}

#[derive(Clone, Copy, PartialEq, Eq, Debug, Serialize, Deserialize)]
pub enum NonAcqOp {
    /// `format!("{:?}", target)`
    Debug,
    /// `format!("{:#?}", target)` (alternate form, what `dbg!` uses)
    DebugPretty,
    /// `write!(sink, "{:?}", target)` into a sink that fails after n bytes
    DebugLimited(u16),
    /// Debug formatting while the payload's own Debug impl returns Err
    DebugPayloadErr,
    /// Debug formatting while the payload's own Debug impl panics (the panic is caught)
    DebugPayloadPanic,
    IsPoisoned,
    ClearPoison,
    /// child()/iter()/as_ref() accessors
    Accessors,
    /// rebuild the target from its spec (all constructors incl. duplicate check), then drop it
    Construct,
}

#[derive(Clone, PartialEq, Eq, Debug, Serialize, Deserialize)]
pub enum BodyOp {
    /// read the i-th flattened leaf of the target
    Read(usize),
    Write(usize),
    Yield,
    KeyProbe,
    Panic,
    GateOpen(usize),
    GateWait(usize),
    /// wait until thread .0 is blocked in a raw acquisition of lock .1
    WaitBlocked(usize, Lid),
    NonAcq(NonAcqOp, usize),
    /// what safe code can do with a guard besides dereferencing it: move the guards of a
    /// `Vec` / boxed-slice child out of the collection guard (if the guard's type lets it be
    /// replaced by an empty one) and keep them past the release of the guard
    StealHolds,
    /// through a *shared* guard / data reference of the i-th leaf: ask for `&mut` access
    /// (DerefMut / AsMut) and write if the type grants it; clone the guard (if it is Clone)
    /// and drop the clone
    AbuseShared(usize),
    /// scoped calls only: the closure hands the data it was given back to its caller, which
    /// uses it (write if exclusive, read if shared) after the call has returned
    EscapeData(usize),
    /// inside a hold: take a key that another thread has sent (if keys can be sent at all) and
    /// lock the i-th leaf of the target, which this thread already holds, with it
    UseForeignKey(usize),
    /// lend `&mut` of the i-th member guard to whichever thread wants it (possible only if
    /// the guard type is Send) and wait a little for it to be used
    LendGuard(usize),
    /// swap the j-th member guard with a member guard of the same type lent by another thread
    SwapLent(usize),
    /// ask the i-th member guard for a reference to the lock it holds (`guard.mutex()` /
    /// `guard.rwlock()`), if the guard type offers that, and keep it past the release
    KeepLockRef(usize),
    /// scoped calls only: the closure owns a value whose destructor panics - the panic strikes
    /// wherever the library drops the closure
    ArmBomb,
}

#[derive(Clone, PartialEq, Eq, Debug, Serialize, Deserialize)]
pub struct Acq {
    pub target: usize,
    /// build a private copy of the target for this step instead of using the shared one
    pub rebuild: bool,
    pub api: Api,
    /// scoped APIs only: pass `&mut ThreadKey` instead of the key itself
    pub lent_key: bool,
    pub body: Vec<BodyOp>,
    pub release: Release,
    /// rebuilt retrying collections only: before acquiring, go through the collection's `&mut`
    /// accessor to its child (if the type offers one for reference members) and list the first
    /// member once more - no safe operation may leave a collection with a repeated lock
    #[serde(default)]
    pub mutate: bool,
}

#[derive(Clone, Copy, PartialEq, Eq, Debug, Serialize, Deserialize)]
pub enum KeyOp {
    Get,
    Drop,
    Forget,
    /// hand the thread's key to whichever thread wants it (possible only if `ThreadKey: Send`,
    /// which it must not be)
    Send,
    /// ask for the key that many times in a row (a refused request must stay refused however
    /// often it is repeated)
    GetMany(u32),
}

#[derive(Clone, PartialEq, Eq, Debug, Serialize, Deserialize)]
pub enum Step {
    Acquire(Acq),
    NonAcq(NonAcqOp, usize),
    Key(KeyOp),
    GateOpen(usize),
    GateWait(usize),
    Yield,
    /// take shared target out of the world and run a destruction path on it
    Destroy(usize, Dtor),
    /// run the inner step from inside a destructor while an unrelated (injected) panic unwinds
    InUnwind(Box<Step>),
    /// wait until thread .0 is blocked in a raw acquisition of lock .1
    WaitBlocked(usize, Lid),
    /// drop a guard that another thread has sent away (if any arrived)
    DropForeignGuard,
}

#[derive(Clone, PartialEq, Eq, Debug, Serialize, Deserialize)]
pub struct Program {
    pub threads: Vec<Vec<Step>>,
}

#[derive(Clone, PartialEq, Debug, Serialize, Deserialize)]
pub struct Scenario {
    pub world: WorldSpec,
    pub program: Program,
    pub cfg: RunCfg,
    /// which oracle profile judges the run (property id, e.g. "C01")
    pub profile: String,
}

// ---------------------------------------------------------------------------------------
// structural helpers used by the generators and the oracles (they never look at addresses)

#[derive(Clone, PartialEq, Eq, Debug, Serialize, Deserialize, Hash, PartialOrd, Ord)]
pub enum PoisonId {
    /// Poisonable layer `depth` (0 = outermost) of leaf `lid`
    Leaf(Lid, usize),
    /// Poisonable wrapped around the collection at `node path` of shared target `target`
    Coll(usize, Vec<u8>),
    /// same, inside a privately rebuilt target (fresh flag every time)
    Private(Vec<u8>),
}

#[derive(Clone, PartialEq, Eq, Debug)]
pub struct FlatLeaf {
    pub lid: Lid,
    pub kind: LeafKind,
    /// member indices from the target root down to the leaf
    pub path: Vec<u8>,
    /// Poisonable layers crossed on that path, outermost first
    pub poison: Vec<PoisonId>,
    /// owned unit the leaf belongs to
    pub unit: Option<usize>,
}

#[derive(Clone, PartialEq, Eq, Debug, Hash, PartialOrd, Ord)]
pub enum Elem {
    Leaf(Lid),
    Unit(usize),
}

impl WorldSpec {
    pub fn unit_of(&self, lid: Lid) -> Option<usize> {
        self.units.iter().position(|u| u.leaves.contains(&lid))
    }

    /// leaves that live inside an owning collection (unit or Own target), not in an arena slot of their own
    pub fn owned_leaves(&self) -> Vec<Lid> {
        let mut v: Vec<Lid> = self.units.iter().flat_map(|u| u.leaves.iter().copied()).collect();
        for t in &self.targets {
            if let TSpec::Own { leaves, .. } = t {
                v.extend(leaves.iter().copied());
            }
        }
        for d in &self.datas {
            v.extend(d.leaves.iter().copied());
        }
        v
    }

    /// resolve Shared links
    pub fn resolve<'a>(&'a self, t: &'a TSpec) -> (&'a TSpec, Option<usize>) {
        let mut cur = t;
        let mut idx = None;
        loop {
            match cur {
                TSpec::Shared(i) => {
                    idx = Some(*i);
                    cur = &self.targets[*i];
                }
                TSpec::Tagged(_, inner) => cur = inner,
                _ => break,
            }
        }
        (cur, idx)
    }

    fn flat_rec(&self, t: &TSpec, root: Option<usize>, path: &mut Vec<u8>, node_path: &mut Vec<u8>, poison: &mut Vec<PoisonId>, out: &mut Vec<FlatLeaf>) {
        match t {
            TSpec::Leaf(l) => {
                let kind = self.leaves[*l];
                let mut p = poison.clone();
                for d in 0..kind.layers() {
                    p.push(PoisonId::Leaf(*l, d));
                }
                out.push(FlatLeaf { lid: *l, kind, path: path.clone(), poison: p, unit: None });
            }
            TSpec::Unit(u) => {
                for (i, l) in self.units[*u].leaves.iter().enumerate() {
                    let kind = self.leaves[*l];
                    let mut p = poison.clone();
                    for d in 0..kind.layers() {
                        p.push(PoisonId::Leaf(*l, d));
                    }
                    let mut pp = path.clone();
                    pp.push(i as u8);
                    out.push(FlatLeaf { lid: *l, kind, path: pp, poison: p, unit: Some(*u) });
                }
            }
            TSpec::Coll { members, poison: pz, .. } => {
                if *pz {
                    poison.push(match root {
                        Some(r) => PoisonId::Coll(r, node_path.clone()),
                        None => PoisonId::Private(node_path.clone()),
                    });
                }
                for (i, m) in members.iter().enumerate() {
                    path.push(i as u8);
                    node_path.push(i as u8);
                    self.flat_rec(m, root, path, node_path, poison, out);
                    node_path.pop();
                    path.pop();
                }
                if *pz {
                    poison.pop();
                }
            }
            TSpec::Shared(i) => {
                // a shared node keeps its own identity for poisoning
                let mut np = Vec::new();
                self.flat_rec(&self.targets[*i], Some(*i), path, &mut np, poison, out);
            }
            TSpec::Tagged(_, inner) => self.flat_rec(inner, root, path, node_path, poison, out),
            TSpec::Group { members, .. } => {
                for (i, m) in members.iter().enumerate() {
                    path.push(i as u8);
                    node_path.push(i as u8);
                    self.flat_rec(m, root, path, node_path, poison, out);
                    node_path.pop();
                    path.pop();
                }
            }
            TSpec::MutRefs { members, .. } => {
                for (i, l) in members.iter().enumerate() {
                    let k = self.leaves[*l];
                    let mut p = poison.clone();
                    for d in 0..k.layers() {
                        p.push(PoisonId::Leaf(*l, d));
                    }
                    let mut pp = path.clone();
                    pp.push(i as u8);
                    out.push(FlatLeaf { lid: *l, kind: k, path: pp, poison: p, unit: None });
                }
            }
            TSpec::OnData { data, poison: pz, .. } => {
                if *pz {
                    poison.push(match root {
                        Some(r) => PoisonId::Coll(r, node_path.clone()),
                        None => PoisonId::Private(node_path.clone()),
                    });
                }
                for (i, l) in self.datas[*data].leaves.iter().enumerate() {
                    let k = self.leaves[*l];
                    let mut p = poison.clone();
                    for d in 0..k.layers() {
                        p.push(PoisonId::Leaf(*l, d));
                    }
                    let mut pp = path.clone();
                    pp.push(i as u8);
                    out.push(FlatLeaf { lid: *l, kind: k, path: pp, poison: p, unit: None });
                }
                if *pz {
                    poison.pop();
                }
            }
            TSpec::Exposed { unit } => {
                for (i, l) in self.units[*unit].leaves.iter().enumerate() {
                    let k = self.leaves[*l];
                    let mut p = poison.clone();
                    for d in 0..k.layers() {
                        p.push(PoisonId::Leaf(*l, d));
                    }
                    let mut pp = path.clone();
                    pp.push(i as u8);
                    out.push(FlatLeaf { lid: *l, kind: k, path: pp, poison: p, unit: None });
                }
            }
            TSpec::Slice { members, poison: pz, .. } => {
                if *pz {
                    poison.push(match root {
                        Some(r) => PoisonId::Coll(r, node_path.clone()),
                        None => PoisonId::Private(node_path.clone()),
                    });
                }
                for (i, l) in members.iter().enumerate() {
                    let k = self.leaves[*l];
                    let mut p = poison.clone();
                    for d in 0..k.layers() {
                        p.push(PoisonId::Leaf(*l, d));
                    }
                    let mut pp = path.clone();
                    pp.push(i as u8);
                    out.push(FlatLeaf { lid: *l, kind: k, path: pp, poison: p, unit: None });
                }
                if *pz {
                    poison.pop();
                }
            }
            TSpec::Own { leaves, poison: pz, kind, .. } => {
                if *pz {
                    poison.push(match root {
                        Some(r) => PoisonId::Coll(r, node_path.clone()),
                        None => PoisonId::Private(node_path.clone()),
                    });
                }
                for (i, l) in leaves.iter().enumerate() {
                    let k = self.leaves[*l];
                    let mut p = poison.clone();
                    for d in 0..k.layers() {
                        p.push(PoisonId::Leaf(*l, d));
                    }
                    let mut pp = path.clone();
                    pp.push(i as u8);
                    out.push(FlatLeaf { lid: *l, kind: k, path: pp, poison: p, unit: if *kind == OwnKind::Owned { Some(1000 + root.unwrap_or(0)) } else { None } });
                }
                if *pz {
                    poison.pop();
                }
            }
        }
    }

    /// leaves of target `t` in declaration order, with paths. `root` = Some(i) when `t` is
    /// shared target i (Poisonable collection layers then have a stable identity).
    pub fn flatten(&self, t: &TSpec, root: Option<usize>) -> Vec<FlatLeaf> {
        let mut out = Vec::new();
        self.flat_rec(t, root, &mut Vec::new(), &mut Vec::new(), &mut Vec::new(), &mut out);
        out
    }

    fn poison_rec(&self, t: &TSpec, root: Option<usize>, node_path: &mut Vec<u8>, out: &mut Vec<PoisonId>) {
        match t {
            TSpec::Leaf(l) => (0..self.leaves[*l].layers()).for_each(|d| out.push(PoisonId::Leaf(*l, d))),
            TSpec::Unit(u) => {
                for l in &self.units[*u].leaves {
                    (0..self.leaves[*l].layers()).for_each(|d| out.push(PoisonId::Leaf(*l, d)));
                }
            }
            TSpec::Coll { members, poison, .. } => {
                if *poison {
                    out.push(match root {
                        Some(r) => PoisonId::Coll(r, node_path.clone()),
                        None => PoisonId::Private(node_path.clone()),
                    });
                }
                for (i, m) in members.iter().enumerate() {
                    node_path.push(i as u8);
                    self.poison_rec(m, root, node_path, out);
                    node_path.pop();
                }
            }
            TSpec::Shared(i) => self.poison_rec(&self.targets[*i], Some(*i), &mut Vec::new(), out),
            TSpec::Tagged(_, inner) => self.poison_rec(inner, root, node_path, out),
            TSpec::Group { members, .. } => {
                for (i, m) in members.iter().enumerate() {
                    node_path.push(i as u8);
                    self.poison_rec(m, root, node_path, out);
                    node_path.pop();
                }
            }
            TSpec::MutRefs { members, .. } => {
                for l in members {
                    (0..self.leaves[*l].layers()).for_each(|d| out.push(PoisonId::Leaf(*l, d)));
                }
            }
            TSpec::OnData { data, poison, .. } => {
                if *poison {
                    out.push(match root {
                        Some(r) => PoisonId::Coll(r, node_path.clone()),
                        None => PoisonId::Private(node_path.clone()),
                    });
                }
                for l in &self.datas[*data].leaves {
                    (0..self.leaves[*l].layers()).for_each(|d| out.push(PoisonId::Leaf(*l, d)));
                }
            }
            TSpec::Exposed { unit } => {
                for l in &self.units[*unit].leaves {
                    (0..self.leaves[*l].layers()).for_each(|d| out.push(PoisonId::Leaf(*l, d)));
                }
            }
            TSpec::Slice { members, poison, .. } => {
                if *poison {
                    out.push(match root {
                        Some(r) => PoisonId::Coll(r, node_path.clone()),
                        None => PoisonId::Private(node_path.clone()),
                    });
                }
                for l in members {
                    (0..self.leaves[*l].layers()).for_each(|d| out.push(PoisonId::Leaf(*l, d)));
                }
            }
            TSpec::Own { leaves, poison, .. } => {
                if *poison {
                    out.push(match root {
                        Some(r) => PoisonId::Coll(r, node_path.clone()),
                        None => PoisonId::Private(node_path.clone()),
                    });
                }
                for l in leaves {
                    (0..self.leaves[*l].layers()).for_each(|d| out.push(PoisonId::Leaf(*l, d)));
                }
            }
        }
    }

    /// every Poisonable (leaf layers and collection wrappers) that a hold on `t` covers
    pub fn poison_ids(&self, t: &TSpec, root: Option<usize>) -> Vec<PoisonId> {
        let mut out = Vec::new();
        self.poison_rec(t, root, &mut Vec::new(), &mut out);
        out.sort();
        out.dedup();
        out
    }

    fn elems_rec(&self, t: &TSpec, out: &mut Vec<Elem>) {
        match t {
            TSpec::Leaf(l) => out.push(Elem::Leaf(*l)),
            // an empty owned collection holds no lock: it cannot make any lock reachable twice
            TSpec::Unit(u) if self.units[*u].leaves.is_empty() => {}
            TSpec::Unit(u) => out.push(Elem::Unit(*u)),
            TSpec::Coll { members, .. } => members.iter().for_each(|m| self.elems_rec(m, out)),
            TSpec::Shared(i) => self.elems_rec(&self.targets[*i], out),
            TSpec::Tagged(_, inner) => self.elems_rec(inner, out),
            TSpec::Group { members, .. } => members.iter().for_each(|m| self.elems_rec(m, out)),
            TSpec::Own { leaves, .. } => leaves.iter().for_each(|l| out.push(Elem::Leaf(*l))),
            TSpec::OnData { data, .. } => self.datas[*data].leaves.iter().for_each(|l| out.push(Elem::Leaf(*l))),
            TSpec::MutRefs { members, .. } | TSpec::Slice { members, .. } => members.iter().for_each(|l| out.push(Elem::Leaf(*l))),
            TSpec::Exposed { unit } => self.units[*unit].leaves.iter().for_each(|l| out.push(Elem::Leaf(*l))),
        }
    }

    /// the multiset of raw-lock elements (leaf or owned unit) reachable through `t`
    pub fn elems(&self, t: &TSpec) -> Vec<Elem> {
        let mut out = Vec::new();
        self.elems_rec(t, &mut out);
        out
    }

    pub fn has_dup(&self, t: &TSpec) -> bool {
        let mut e = self.elems(t);
        e.sort();
        e.windows(2).any(|w| w[0] == w[1])
    }

    /// does any collection node inside `t` (including `t` itself) contain a duplicate?
    pub fn any_dup(&self, t: &TSpec) -> bool {
        match t {
            TSpec::Coll { members, .. } => self.has_dup(t) || members.iter().any(|m| self.any_dup(m)),
            TSpec::Shared(i) => self.any_dup(&self.targets[*i]),
            TSpec::Tagged(_, inner) => self.any_dup(inner),
            TSpec::MutRefs { .. } | TSpec::Slice { .. } => self.has_dup(t),
            TSpec::Group { members, .. } => members.iter().any(|m| self.any_dup(m)),
            _ => false,
        }
    }

    pub fn all_rw(&self, t: &TSpec) -> bool {
        self.flatten(t, None).iter().all(|f| f.kind.is_rw())
    }

    /// the kind of the collection that runs the acquisition algorithm for `t`
    pub fn root_kind(&self, t: &TSpec) -> Option<CollKind> {
        match self.resolve(t).0 {
            TSpec::Coll { kind, .. } => Some(*kind),
            TSpec::Own { kind: OwnKind::Boxed, .. } => Some(CollKind::Boxed),
            TSpec::Own { kind: OwnKind::Ref, .. } => Some(CollKind::Ref),
            TSpec::Own { kind: OwnKind::Retry, .. } => Some(CollKind::Retry),
            TSpec::OnData { kind, .. } | TSpec::Slice { kind, .. } => Some(*kind),
            TSpec::Exposed { .. } => Some(CollKind::Boxed),
            TSpec::MutRefs { kind: OwnKind::Boxed, .. } => Some(CollKind::Boxed),
            TSpec::MutRefs { kind: OwnKind::Ref, .. } => Some(CollKind::Ref),
            TSpec::MutRefs { kind: OwnKind::Retry, .. } => Some(CollKind::Retry),
            _ => None,
        }
    }

    pub fn depth(&self, t: &TSpec) -> usize {
        match t {
            TSpec::Coll { members, .. } => 1 + members.iter().map(|m| self.depth(m)).max().unwrap_or(0),
            TSpec::Shared(i) => self.depth(&self.targets[*i]),
            TSpec::Tagged(_, inner) => self.depth(inner),
            TSpec::Group { members, .. } => members.iter().map(|m| self.depth(m)).max().unwrap_or(0),
            TSpec::Own { .. } | TSpec::OnData { .. } | TSpec::MutRefs { .. } | TSpec::Slice { .. } | TSpec::Exposed { .. } => 1,
            _ => 0,
        }
    }
}
