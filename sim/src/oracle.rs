//! Attribution of monitor clauses to properties (DESIGN §6).

use crate::sched::{Clause, Event};
use crate::spec::Scenario;

/// the property a clause belongs to, given the kind of run it was observed in
pub fn property_of(c: Clause, scn: &Scenario) -> &'static str {
    let raw = scn.cfg.faults.raw_faults();
    match c {
        Clause::Deadlock | Clause::SelfWait => {
            if raw {
                "C12"
            } else {
                "C01"
            }
        }
        Clause::AccessWithoutHold | Clause::WriteUnderShared | Clause::Torn | Clause::StaleValue | Clause::Misrouted | Clause::ClosureOutsideHold | Clause::EscapedAccess => "C02",
        Clause::AcquireWhileHolding | Clause::KeyBackWhileHolding => {
            if raw {
                "C12"
            } else {
                "C03"
            }
        }
        Clause::HeldNeLeafset | Clause::HeldAfterErr | Clause::BlockingInTry | Clause::ClosureCount => {
            if raw {
                "C12"
            } else {
                "C04"
            }
        }
        Clause::BadRelease | Clause::HeldAtEnd => {
            if raw {
                "C12"
            } else {
                "C05"
            }
        }
        Clause::KeyModel => "C06",
        Clause::DupVerdict => "C07",
        Clause::OrderConflict | Clause::UnitSplit => "C08",
        // (with a raw-lock fault in play, not finishing is about what the faulted lock does to
        // later acquisitions, which is C12's subject, not contention)
        Clause::RetryHoldWait | Clause::NoProgress => {
            if raw {
                "C12"
            } else {
                "C09"
            }
        }
        Clause::PoisonModel | Clause::PlainKilled => "C10",
        Clause::LeakAfterUserPanic | Clause::PayloadLost | Clause::KeyLostAfterPanic => "C11",
        Clause::RawLeak | Clause::RawPanicLost | Clause::FaultedUsable | Clause::RawDoubleRelease | Clause::RawCollateralKill => "C12",
        Clause::TryOutcome | Clause::TryStateChanged => "C13",
        Clause::DropCount | Clause::RoundTrip => "C16",
        Clause::NonAcqBlocking | Clause::NonAcqStateChanged | Clause::RawStateOverwritten => "C17",
        Clause::Harness => "HARNESS",
    }
}

/// every property an event counts against: a release that is wrong (holder, mode, count) while
/// a user panic unwinds is a C05 violation and a C11 violation alike
pub fn properties_of(e: &Event, scn: &Scenario) -> Vec<&'static str> {
    let mut v = vec![property_of(e.clause, scn)];
    if e.during_user_unwind && !scn.cfg.faults.raw_faults() && matches!(e.clause, Clause::BadRelease) {
        v.push("C11");
    }
    // a lock still held when the unwind has given the key back is also "key back while holding"
    if matches!(e.clause, Clause::LeakAfterUserPanic) {
        v.push("C03");
    }
    // a hold that ends because the raw lock was reset was not released by its holder
    if matches!(e.clause, Clause::RawStateOverwritten) && !scn.cfg.faults.raw_faults() {
        v.push("C05");
    }
    v
}
