//! Interprets the per-thread programs of a scenario against the real happylock objects, on
//! real OS threads parked and released one at a time by the scheduler. Inline oracles
//! (held-set, key model, poison model, routing) live here; raw-level monitors in `sched`.

use crate::api::{Held, TargetApi};
use crate::raw::RawFault;
use crate::sched::{self, ApiKind, ApiRec, Clause, Lid, RunOutcome, Sched};
use crate::shape::*;
use crate::spec::*;
use crate::world::{BuildErr, World};
use happylock::ThreadKey;
use std::cell::{Cell, RefCell};
use std::collections::BTreeMap;
use std::panic::{catch_unwind, resume_unwind, AssertUnwindSafe};
use std::sync::Mutex;

/// payload of an injected user panic
#[derive(Debug)]
pub struct Injected;

#[derive(Default, Clone, Copy, Debug)]
pub struct PState {
    /// a panic unwound during an exclusive hold since the last clear
    pub must: bool,
    /// ... and at least one such panic came through the Poisonable's own guard / own scoped
    /// closure / a guard of an enclosing collection (every path except the closure of a
    /// scoped call whose receiver merely encloses the Poisonable)
    pub must_direct: bool,
    /// a panic unwound during any hold since the last clear (or the state is uncertain)
    pub may: bool,
}

#[derive(Default)]
pub struct Model {
    pub poison: BTreeMap<PoisonId, PState>,
    /// Poisonables covered by a hold that is currently unwinding, per thread
    pub in_flight: Vec<Vec<PoisonId>>,
    /// x was blocking-acquired before y by some sorting collection
    pub order: std::collections::BTreeSet<(Lid, Lid)>,
}

impl Model {
    fn flying(&self, p: &PoisonId) -> bool {
        self.in_flight.iter().any(|v| v.contains(p))
    }
}

#[derive(Default, Clone, Debug, serde::Serialize, serde::Deserialize)]
pub struct Probes {
    pub acquisitions_ok: u64,
    pub try_failed: u64,
    pub reads: u64,
    pub writes: u64,
    pub closures: u64,
    pub user_panics: u64,
    pub raw_unwinds: u64,
    pub lib_panics: u64,
    pub poisoned_err_seen: u64,
    pub poison_layers_checked: u64,
    pub key_probes: u64,
    pub nonacq_ops: u64,
    pub skipped_steps: u64,
    pub rejected_targets: u64,
    pub fault_probes: u64,
    pub steps_done: u64,
    pub is_poisoned_true: u64,
    pub clear_poison: u64,
    pub known_d5: u64,
    pub order_seqs: u64,
    pub quiescent_tries: u64,
    pub quiescent_try_ok: u64,
    pub destroys: u64,
    pub roundtrip_values: u64,
    pub relisted_through_child_mut: u64,
    pub steals: u64,
    pub steal_refused: u64,
    pub abuse_shared: u64,
    pub escapes: u64,
    pub key_send_refused: u64,
    pub keys_sent: u64,
    pub foreign_keys_used: u64,
    pub lend_refused: u64,
    pub lends: u64,
    pub guard_swaps: u64,
    pub guard_send_refused: u64,
    pub guards_sent: u64,
    pub foreign_guards_dropped: u64,
    pub guards_taken_apart: u64,
    pub take_apart_refused: u64,
    pub bombs_armed: u64,
    pub lock_refs_kept: u64,
    pub lock_ref_refused: u64,
}

pub struct Runner<'a> {
    pub scn: &'a Scenario,
    pub sched: &'a Sched,
    pub world: &'a World,
    pub model: Mutex<Model>,
    pub probes: Mutex<Probes>,
    /// flattened leaves of every shared target
    pub flats: Vec<Vec<FlatLeaf>>,
    /// keys sent from thread to thread (KeyOp::Send); empty unless `ThreadKey: Send`
    pub mailbox: Mutex<Vec<Box<dyn std::any::Any + Send>>>,
    /// `&mut member guard` lent to other threads (LendGuard); empty unless such guards are Send
    pub lent: Mutex<Vec<LentEntry>>,
    /// whole guards sent to other threads (Release::SendAway); empty unless they are Send
    pub sent_guards: Mutex<Vec<(usize, Box<dyn crate::caps::Opaque + Send>)>>,
}

pub struct LentEntry {
    pub from: usize,
    pub ptr: usize,
    pub tag: u8,
    pub taken: bool,
}

struct KeyHolder {
    key: Option<ThreadKey>,
    /// model: the thread's key is alive somewhere (user, guard, lent or moved into a scoped call)
    alive: bool,
    leaked: bool,
    extra: Vec<ThreadKey>,
}

struct Ctx<'c> {
    acq: &'c Acq,
    flat: &'c [FlatLeaf],
    retry: bool,
    sorting: bool,
    /// the receiver of the call is itself a Poisonable
    root_poisonable: bool,
    shared: bool,
    private: bool,
}

struct St<'r, 'a> {
    r: &'r Runner<'a>,
    tid: usize,
    step: usize,
    opseq: u64,
    /// poison snapshot of the current hold: per flat leaf, per layer (must, may, flying)
    snap: Vec<Vec<(bool, bool, bool, bool)>>,
    private_poison: BTreeMap<PoisonId, PState>,
    /// the current step runs inside a destructor during an unrelated unwind
    in_unwind: bool,
    /// an injected user panic was thrown in the current step
    panic_thrown: bool,
    /// member guards moved out of a collection guard (BodyOp::StealHolds), kept past its release
    stolen: Vec<Box<dyn crate::caps::Opaque>>,
}

struct ClosureScope<'s>(&'s Sched);
impl Drop for ClosureScope<'_> {
    fn drop(&mut self) {
        self.0.closure_exit();
    }
}

struct LimitedSink(usize);
impl std::fmt::Write for LimitedSink {
    fn write_str(&mut self, s: &str) -> std::fmt::Result {
        if s.len() > self.0 {
            self.0 = 0;
            return Err(std::fmt::Error);
        }
        self.0 -= s.len();
        Ok(())
    }
}

fn via_text(direct: bool) -> &'static str {
    if direct {
        "via=own-guard-or-own-scoped-closure-or-enclosing-guard"
    } else {
        "via=scoped-closure-of-enclosing-value"
    }
}

fn panic_message(p: &(dyn std::any::Any + Send)) -> String {
    if let Some(s) = p.downcast_ref::<&str>() {
        s.to_string()
    } else if let Some(s) = p.downcast_ref::<String>() {
        s.clone()
    } else {
        "<non-string panic payload>".to_string()
    }
}

impl<'r, 'a> St<'r, 'a> {
    fn s(&self) -> &'r Sched {
        self.r.sched
    }
    fn quiescent_profile(&self) -> bool {
        matches!(self.r.scn.profile.as_str(), "C13" | "C17")
    }
    fn raw_faults(&self) -> bool {
        self.r.scn.cfg.faults.raw_faults()
    }
    fn probe<F: FnOnce(&mut Probes)>(&self, f: F) {
        f(&mut self.r.probes.lock().unwrap())
    }

    fn pstate(&self, p: &PoisonId) -> (PState, bool) {
        if self.in_unwind {
            // guards dropped while thread::panicking() poison what they cover
            let (mut st, fl) = self.pstate_raw(p);
            st.may = true;
            return (st, fl);
        }
        self.pstate_raw(p)
    }

    fn pstate_raw(&self, p: &PoisonId) -> (PState, bool) {
        if let PoisonId::Private(_) = p {
            return (self.private_poison.get(p).copied().unwrap_or_default(), false);
        }
        let m = self.r.model.lock().unwrap();
        (m.poison.get(p).copied().unwrap_or_default(), m.flying(p))
    }

    fn take_snapshot(&mut self, ctx: &Ctx) {
        self.snap = ctx.flat.iter().map(|f| f.poison.iter().map(|p| { let (st, fl) = self.pstate(p); (st.must, st.may, fl, st.must_direct) }).collect()).collect();
    }

    fn expected_held(&self, ctx: &Ctx) -> Vec<(Lid, bool)> {
        let mut v: Vec<(Lid, bool)> = ctx.flat.iter().map(|f| (f.lid, ctx.shared)).collect();
        v.sort();
        // every reachable leaf exactly once, however often the structure reaches it
        v.dedup();
        v
    }

    fn after_acquire(&mut self, ctx: &Ctx, rec: &ApiRec) {
        let mut held = self.s().held();
        held.sort();
        let exp = self.expected_held(ctx);
        if held != exp {
            self.s().report(
                Clause::HeldNeLeafset,
                format!("after {:?} on target {} returned a guard: held {:?}, expected exactly {:?} (lid, shared)", ctx.acq.api, ctx.acq.target, held, exp),
            );
        }
        let seq = rec.blocking_seq.clone();
        let acquired = rec.acquired.clone();
        self.check_order(ctx, &seq, &acquired);
        self.take_snapshot(ctx);
        self.probe(|p| p.acquisitions_ok += 1);
    }

    /// C08: blocking acquisitions made through sorting collections agree on one order
    fn check_order(&mut self, ctx: &Ctx, seq: &[(Lid, bool)], acquired: &[(Lid, bool)]) {
        if !ctx.sorting || ctx.acq.api.is_try() {
            return;
        }
        let s = self.s();
        // indivisibility of a unit is about the order in which its members were *taken* (by a
        // waiting operation or by a try that succeeded); the pairwise relation below is about
        // the operations that wait
        let taken: Vec<Lid> = acquired.iter().map(|x| x.0).collect();
        let lids: Vec<Lid> = seq.iter().map(|x| x.0).collect();
        self.probe(|p| p.order_seqs += 1);
        // an owned collection is one indivisible unit, in its own listing order
        let spec = &self.r.world.spec;
        for (u, us) in spec.units.iter().enumerate() {
            let pos: Vec<usize> = us.leaves.iter().filter_map(|l| taken.iter().position(|x| x == l)).collect();
            if pos.is_empty() {
                continue;
            }
            // (the order *inside* the unit is covered by the pairwise relation below)
            let mut sorted = pos.clone();
            sorted.sort();
            let contiguous = pos.len() == us.leaves.len() && sorted.windows(2).all(|w| w[1] == w[0] + 1);
            if !contiguous {
                s.report(Clause::UnitSplit, format!("owned unit {} (leaves {:?}) was not acquired as one indivisible group: sequence {:?}", u, us.leaves, taken));
            }
        }
        let mut m = self.r.model.lock().unwrap();
        for i in 0..lids.len() {
            for j in i + 1..lids.len() {
                if lids[i] == lids[j] {
                    continue;
                }
                if m.order.contains(&(lids[j], lids[i])) {
                    s.report(Clause::OrderConflict, format!("{:?} on target {} acquired lock {} before lock {}, but an earlier sorting acquisition took them in the opposite order (sequence {:?})", ctx.acq.api, ctx.acq.target, lids[i], lids[j], lids));
                }
                m.order.insert((lids[i], lids[j]));
            }
        }
    }

    fn after_try_fail(&mut self, ctx: &Ctx, rec: &ApiRec) {
        let held = self.s().held();
        if !held.is_empty() {
            self.s().report(Clause::HeldAfterErr, format!("{:?} on target {} failed but the caller still holds {:?}", ctx.acq.api, ctx.acq.target, held));
        }
        if self.quiescent_profile() {
            // nothing else runs: a failed try must leave the whole table as it found it
            let _ = rec;
        }
        self.probe(|p| p.try_failed += 1);
    }

    fn at_closure_entry(&mut self, ctx: &Ctx) {
        let mut held = self.s().held();
        held.sort();
        let exp = self.expected_held(ctx);
        if held != exp {
            self.s().report(
                Clause::ClosureOutsideHold,
                format!("closure of {:?} on target {} entered with held {:?}, expected exactly {:?}", ctx.acq.api, ctx.acq.target, held, exp),
            );
        }
        let seq = self.s().api_closure_blocking_seq();
        let acquired = self.s().api_closure_acquired();
        self.check_order(ctx, &seq, &acquired);
        self.take_snapshot(ctx);
        self.probe(|p| p.closures += 1);
    }

    fn check_layers(&mut self, ctx: &Ctx, i: usize, layers: &[bool]) {
        let fl = &ctx.flat[i];
        if layers.len() != fl.poison.len() {
            self.s().report(Clause::Harness, format!("poison layer count mismatch at leaf {}: got {:?}, spec {:?}", i, layers, fl.poison));
            return;
        }
        for (k, &is_err) in layers.iter().enumerate() {
            let (must, may, flying, direct) = self.snap[i][k];
            self.probe(|p| {
                p.poison_layers_checked += 1;
                if is_err {
                    p.poisoned_err_seen += 1;
                }
            });
            // (no exemption for an unwind still in flight: whoever panicked during an exclusive
            // hold sets the flag before it releases the lock we just acquired)
            let _ = flying;
            if must && !is_err {
                self.report_poison(ctx, &fl.poison[k], format!("acquisition through {:?} reported Ok for {:?} although a panic unwound during an exclusive hold on it since the last clear [{}]", ctx.acq.api, fl.poison[k], via_text(direct)));
            }
            if is_err && !may {
                self.report_poison(ctx, &fl.poison[k], format!("acquisition through {:?} reported Err(poisoned) for {:?} although no panic unwound during any hold on it since the last clear", ctx.acq.api, fl.poison[k]));
            }
        }
    }

    /// C13: with no concurrent activity, try_lock succeeds iff no leaf is held in any mode,
    /// try_read iff none is held exclusively (computed from the owner table before the call)
    fn quiescent_pred(&self, ctx: &Ctx) -> (Vec<(Option<usize>, Vec<usize>)>, bool) {
        let g = self.s().lock();
        let table = g.owner_table();
        let ok = ctx.flat.iter().all(|f| {
            let l = &g.locks[f.lid];
            if ctx.shared {
                l.excl.is_none()
            } else {
                l.excl.is_none() && l.shared.is_empty()
            }
        });
        (table, ok)
    }

    fn check_try_outcome(&self, ctx: &Ctx, q: &Option<(Vec<(Option<usize>, Vec<usize>)>, bool)>, succeeded: bool) {
        if let Some((_, exp)) = q {
            self.probe(|p| {
                p.quiescent_tries += 1;
                if succeeded {
                    p.quiescent_try_ok += 1;
                }
            });
            if *exp != succeeded {
                self.s().report(Clause::TryOutcome, format!("{:?} on target {} {} in a quiescent state where it must {} (leaves {:?}, owner table {:?})", ctx.acq.api, ctx.acq.target, if succeeded { "succeeded" } else { "failed" }, if *exp { "succeed" } else { "fail" }, ctx.flat.iter().map(|f| f.lid).collect::<Vec<_>>(), q.as_ref().unwrap().0));
            }
        }
    }

    fn check_try_restored(&self, ctx: &Ctx, q: &Option<(Vec<(Option<usize>, Vec<usize>)>, bool)>, what: &str) {
        if let Some((before, _)) = q {
            let after = self.s().lock().owner_table();
            if *before != after {
                self.s().report(Clause::TryStateChanged, format!("{:?} on target {}: owner table {} is {:?}, before the call it was {:?}", ctx.acq.api, ctx.acq.target, what, after, before));
            }
        }
    }

    fn report_poison(&self, _ctx: &Ctx, _p: &PoisonId, detail: String) {
        self.s().report(Clause::PoisonModel, detail);
    }

    fn body(&mut self, kh: &KeyProbeCell, h: &mut dyn Held, ctx: &Ctx) {
        let s = self.s();
        // the guard has been emptied by StealHolds: nothing can be reached through it any more
        let mut emptied = false;
        for (j, op) in ctx.acq.body.iter().enumerate() {
            self.opseq += 1;
            match op {
                BodyOp::Read(i) | BodyOp::Write(i) => {
                    if *i >= ctx.flat.len() || emptied {
                        continue;
                    }
                    let fl = &ctx.flat[*i];
                    let mut layers = Vec::new();
                    let pr = h.visit(&fl.path, &mut layers);
                    let is_write = matches!(op, BodyOp::Write(_));
                    let lid = match &pr {
                        PayRef::Mut(p) => p.lid,
                        PayRef::Shared(p) => p.lid,
                    } as usize;
                    if lid != fl.lid {
                        s.report(Clause::Misrouted, format!("position {:?} of target {} reached lock {} but the declared structure has lock {} there", fl.path, ctx.acq.target, lid, fl.lid));
                    }
                    match pr {
                        PayRef::Mut(p) => {
                            if is_write {
                                let v = ((self.tid as u64 + 1) << 40) | ((self.step as u64) << 24) | ((j as u64 + 1) << 8) | (self.opseq & 0xff);
                                p.write(v);
                                self.probe(|p| p.writes += 1);
                            } else {
                                p.read();
                                self.probe(|p| p.reads += 1);
                            }
                        }
                        PayRef::Shared(p) => {
                            p.read();
                            self.probe(|p| p.reads += 1);
                        }
                    }
                    self.check_layers(ctx, *i, &layers);
                }
                BodyOp::Yield => s.yield_point(),
                BodyOp::KeyProbe => {
                    let got = ThreadKey::get();
                    self.probe(|p| p.key_probes += 1);
                    if let Some(k) = got {
                        s.report(Clause::KeyModel, format!("ThreadKey::get() returned a key inside a hold ({:?} on target {}) while the thread's key is alive", ctx.acq.api, ctx.acq.target));
                        kh.extra.borrow_mut().push(k);
                    }
                }
                BodyOp::Panic => {
                    self.note_user_panic(ctx);
                    s.set_user_unwinding(true);
                    resume_unwind(Box::new(Injected));
                }
                BodyOp::GateOpen(g) => s.gate_open(*g),
                BodyOp::GateWait(g) => s.gate_wait(*g),
                BodyOp::WaitBlocked(t, l) => s.wait_blocked(*t, *l),
                BodyOp::NonAcq(op, t) => self.nonacq(*op, *t),
                BodyOp::StealHolds => {
                    // (not from a privately rebuilt target: what is stolen must not outlive it)
                    if ctx.acq.api.is_scoped() || ctx.private {
                        continue;
                    }
                    match h.steal() {
                        Some(b) => {
                            emptied = true;
                            self.probe(|p| p.steals += 1);
                            // the stolen guards borrow the target, which outlives this step; they
                            // are dropped right after the guard they came from has been released
                            let b: Box<dyn crate::caps::Opaque + 'static> = unsafe { std::mem::transmute::<Box<dyn crate::caps::Opaque + '_>, Box<dyn crate::caps::Opaque + 'static>>(b) };
                            self.stolen.push(b);
                        }
                        None => self.probe(|p| p.steal_refused += 1),
                    }
                }
                BodyOp::AbuseShared(i) => {
                    if *i >= ctx.flat.len() || emptied {
                        continue;
                    }
                    let fl = &ctx.flat[*i];
                    let mut layers = Vec::new();
                    crate::caps::ABUSE.with(|a| a.set(true));
                    let pr = h.visit(&fl.path, &mut layers);
                    crate::caps::ABUSE.with(|a| a.set(false));
                    self.probe(|p| p.abuse_shared += 1);
                    match pr {
                        PayRef::Mut(p) => {
                            let v = ((self.tid as u64 + 1) << 40) | ((self.step as u64) << 24) | ((j as u64 + 1) << 8) | (self.opseq & 0xff);
                            p.write(v);
                        }
                        PayRef::Shared(p) => {
                            p.read();
                        }
                    }
                }
                // performed by the caller of the scoped call once it has returned
                BodyOp::EscapeData(_) => {}
                BodyOp::ArmBomb => {
                    if !ctx.acq.api.is_scoped() || self.in_unwind {
                        continue;
                    }
                    // if the closure is let go of while its locks are still held, this is a panic
                    // during the hold; if afterwards (as it is today), nothing is poisoned: uncertain
                    let spec = &self.r.world.spec;
                    let ids: Vec<PoisonId> = spec.poison_ids(&spec.targets[ctx.acq.target], if ctx.private { None } else { Some(ctx.acq.target) });
                    {
                        let mut m = self.r.model.lock().unwrap();
                        for p in &ids {
                            if let PoisonId::Private(_) = p {
                                self.private_poison.entry(p.clone()).or_default().may = true;
                            } else {
                                m.poison.entry(p.clone()).or_default().may = true;
                            }
                        }
                        // from now on a panic may unwind through this hold at any moment: a
                        // clear_poison by another thread does not make the state certain again
                        let tid = self.tid;
                        m.in_flight[tid] = ids;
                    }
                    self.probe(|p| p.bombs_armed += 1);
                    crate::api::BOMB_ARMED.with(|b| b.set(true));
                }
                BodyOp::KeepLockRef(i) => {
                    if *i >= ctx.flat.len() || emptied || ctx.acq.api.is_scoped() {
                        continue;
                    }
                    let mut layers = Vec::new();
                    crate::caps::REFLECTED.with(|l| l.set(None));
                    crate::caps::REFLECT.with(|a| a.set(true));
                    let _ = h.visit(&ctx.flat[*i].path, &mut layers);
                    crate::caps::REFLECT.with(|a| a.set(false));
                    match crate::caps::REFLECTED.with(|l| l.take()) {
                        Some((addr, rw)) => {
                            // used only here, while the guard that handed it out is alive (the
                            // reference may be tied to the guard's borrow)
                            self.probe(|p| p.lock_refs_kept += 1);
                            let lid = ctx.flat[*i].lid;
                            if let Some(u) = ctx.flat[*i].unit.filter(|u| *u < self.r.world.spec.units.len() && self.r.world.spec.units[*u].by_ref) {
                                self.r.world.dup_verdict_with_member(u, addr, rw, lid, s);
                            }
                        }
                        None => self.probe(|p| p.lock_ref_refused += 1),
                    }
                }
                BodyOp::LendGuard(i) | BodyOp::SwapLent(i) => {
                    if *i >= ctx.flat.len() || emptied || ctx.acq.api.is_scoped() {
                        continue;
                    }
                    // where the member guard lives, if safe code could pass `&mut` of it to another thread
                    let mut layers = Vec::new();
                    crate::caps::LENT.with(|l| l.set(None));
                    crate::caps::LEND.with(|a| a.set(true));
                    let _ = h.visit(&ctx.flat[*i].path, &mut layers);
                    crate::caps::LEND.with(|a| a.set(false));
                    let (ptr, tag) = match crate::caps::LENT.with(|l| l.take()) {
                        Some(x) => x,
                        None => {
                            self.probe(|p| p.lend_refused += 1);
                            continue;
                        }
                    };
                    const SPINS: usize = 30;
                    let me = self.tid;
                    if matches!(op, BodyOp::LendGuard(_)) {
                        self.r.lent.lock().unwrap().push(LentEntry { from: me, ptr, tag, taken: false });
                        self.probe(|p| p.lends += 1);
                        for _ in 0..SPINS {
                            s.yield_point();
                            if self.r.lent.lock().unwrap().iter().any(|e| e.from == me && e.ptr == ptr && e.taken) {
                                break;
                            }
                        }
                        // the loan ends here, used or not
                        self.r.lent.lock().unwrap().retain(|e| !(e.from == me && e.ptr == ptr));
                    } else {
                        for _ in 0..SPINS {
                            let mut done = false;
                            {
                                let mut mb = self.r.lent.lock().unwrap();
                                if let Some(e) = mb.iter_mut().find(|e| !e.taken && e.from != me && e.tag == tag) {
                                    // safety: the lender is parked inside its LendGuard op, its guard is alive
                                    unsafe { swap_member_guards(e.ptr, ptr, tag) };
                                    e.taken = true;
                                    done = true;
                                }
                            }
                            if done {
                                self.probe(|p| p.guard_swaps += 1);
                                break;
                            }
                            s.yield_point();
                        }
                    }
                }
                BodyOp::UseForeignKey(i) => {
                    if *i >= ctx.flat.len() {
                        continue;
                    }
                    let leaf = match self.r.world.leaf(ctx.flat[*i].lid) {
                        Some(l) => l,
                        None => continue,
                    };
                    let b = match self.r.mailbox.lock().unwrap().pop() {
                        Some(b) => b,
                        None => continue,
                    };
                    let fk: ThreadKey = match b.downcast::<ThreadKey>() {
                        Ok(k) => *k,
                        Err(_) => continue,
                    };
                    self.probe(|p| p.foreign_keys_used += 1);
                    // a second key on this thread: lock something the thread already holds
                    match leaf {
                        Leaf::M(m) => drop(m.lock(fk)),
                        Leaf::R(r) => drop(r.write(fk)),
                        Leaf::PM(p) => drop(p.lock(fk)),
                        Leaf::PR(p) => drop(p.lock(fk)),
                        Leaf::PPM(p) => drop(p.lock(fk)),
                        Leaf::PPR(p) => drop(p.lock(fk)),
                        Leaf::ZM(_) | Leaf::ZR(_) => drop(fk),
                    }
                }
            }
        }
    }

    /// the data a scoped closure handed back to its caller is used after the call
    fn use_escaped(&mut self, h: &mut dyn Held, ctx: &Ctx, receiver: &str) {
        for (j, op) in ctx.acq.body.iter().enumerate() {
            if let BodyOp::EscapeData(i) = op {
                if *i >= ctx.flat.len() {
                    continue;
                }
                self.probe(|p| p.escapes += 1);
                let fl = &ctx.flat[*i];
                let mut layers = Vec::new();
                let pr = h.visit(&fl.path, &mut layers);
                crate::pay::ESCAPED_USE.with(|e| e.set(true));
                crate::pay::ESCAPED_RECEIVER.with(|r| *r.borrow_mut() = format!("{:?} of {}", ctx.acq.api, receiver));
                match pr {
                    PayRef::Mut(p) => {
                        let v = ((self.tid as u64 + 1) << 40) | ((self.step as u64) << 24) | ((j as u64 + 1) << 8) | 0xEE;
                        p.write(v);
                    }
                    PayRef::Shared(p) => {
                        p.read();
                    }
                }
                crate::pay::ESCAPED_USE.with(|e| e.set(false));
            }
        }
    }

    fn note_user_panic(&mut self, ctx: &Ctx) {
        self.probe(|p| p.user_panics += 1);
        self.panic_thrown = true;
        let spec = &self.r.world.spec;
        let ids: Vec<PoisonId> = spec.poison_ids(&spec.targets[ctx.acq.target], if ctx.private { None } else { Some(ctx.acq.target) });
        let excl = !ctx.shared;
        // the receiver's own Poisonable (if the receiver is one) is the outermost layer of every path
        let receiver: Option<PoisonId> = if !ctx.root_poisonable {
            None
        } else {
            match spec.resolve(&spec.targets[ctx.acq.target]) {
                (TSpec::Leaf(l), _) => Some(PoisonId::Leaf(*l, 0)),
                (TSpec::Coll { .. }, Some(i)) => Some(PoisonId::Coll(i, vec![])),
                (TSpec::Coll { .. }, None) => Some(if ctx.private { PoisonId::Private(vec![]) } else { PoisonId::Coll(ctx.acq.target, vec![]) }),
                _ => None,
            }
        };
        let scoped = ctx.acq.api.is_scoped();
        let mut m = self.r.model.lock().unwrap();
        // a Poisonable nested directly inside another Poisonable (no collection involved) is not
        // named by the statement of C10: record only that it *may* have been poisoned
        let nested_leaf_layer = |p: &PoisonId| matches!((spec.resolve(&spec.targets[ctx.acq.target]).0, p), (TSpec::Leaf(_), PoisonId::Leaf(_, d)) if *d >= 1);
        for p in &ids {
            if nested_leaf_layer(p) {
                let e = m.poison.entry(p.clone()).or_default();
                e.may = true;
                continue;
            }
            let direct = !scoped || receiver.as_ref() == Some(p);
            let e = if let PoisonId::Private(_) = p { self.private_poison.entry(p.clone()).or_default() } else { m.poison.entry(p.clone()).or_default() };
            e.may = true;
            e.must |= excl;
            e.must_direct |= excl && direct;
        }
        let tid = self.tid;
        m.in_flight[tid] = ids;
    }

    // ---- non-acquiring operations ----

    fn nonacq(&mut self, op: NonAcqOp, t: usize) {
        let s = self.s();
        let world = self.r.world;
        static NO_NODE: Node = Node::Group0;
        let node = match world.target(t) {
            Some(n) => n,
            // a target whose checked constructor rejected its input can still be constructed again
            None if op == NonAcqOp::Construct => &NO_NODE,
            None => return,
        };
        self.probe(|p| p.nonacq_ops += 1);
        let me_before = s.held();
        let table_before = s.lock().owner_table();
        s.api_begin(ApiKind::NonAcq, false);
        let depth = s.api_depth();
        let unwound = catch_unwind(AssertUnwindSafe(|| self.nonacq_op(op, t, node)));
        if unwound.is_err() {
            s.api_unwind_to(depth);
        }
        crate::pay::PAY_DEBUG_MODE.with(|m| m.set(0));
        let _rec = s.api_end();
        let me_after = s.held();
        // a raw-lock fault inside the operation is judged by the C12 oracle after the unwind
        let raw_unwound = matches!(&unwound, Err(p) if p.is::<crate::raw::RawFault>() || self.raw_faults());
        if raw_unwound {
        } else if me_before != me_after {
            s.report(Clause::NonAcqStateChanged, format!("{:?} on target {} changed the caller's holds from {:?} to {:?}", op, t, me_before, me_after));
        } else if self.quiescent_profile() {
            let table_after = s.lock().owner_table();
            if table_before != table_after {
                s.report(Clause::NonAcqStateChanged, format!("{:?} on target {} changed the owner table from {:?} to {:?}", op, t, table_before, table_after));
            }
        }
        if let Err(p) = unwound {
            // the payload's own panic (DebugPayloadPanic) ends here; anything else goes on
            if !(op == NonAcqOp::DebugPayloadPanic && p.is::<Injected>()) {
                resume_unwind(p);
            }
        }
    }

    fn nonacq_op(&mut self, op: NonAcqOp, t: usize, node: &Node) {
        let s = self.s();
        let world = self.r.world;
        match op {
            NonAcqOp::Debug => {
                let txt = format!("{:?}", node);
                std::hint::black_box(&txt);
            }
            NonAcqOp::DebugPretty => {
                let txt = format!("{:#?}", node);
                std::hint::black_box(&txt);
            }
            NonAcqOp::DebugLimited(n) => {
                // a sink that fails part-way: formatting stops early with fmt::Error
                use std::fmt::Write;
                let mut w = LimitedSink(n as usize);
                let _ = write!(w, "{:?}", node);
            }
            NonAcqOp::DebugPayloadErr | NonAcqOp::DebugPayloadPanic => {
                use std::fmt::Write;
                crate::pay::PAY_DEBUG_MODE.with(|m| m.set(if op == NonAcqOp::DebugPayloadErr { 1 } else { 2 }));
                let mut w = LimitedSink(usize::MAX);
                let _ = write!(w, "{:?}", node);
                crate::pay::PAY_DEBUG_MODE.with(|m| m.set(0));
            }
            NonAcqOp::Accessors => accessors(node),
            NonAcqOp::Construct if matches!(world.spec.targets[t], TSpec::Own { .. }) => {}
            NonAcqOp::Construct => {
                let spec_t = world.spec.targets[t].clone();
                match world.build(&spec_t, s) {
                    Ok(n) => drop(n),
                    Err(BuildErr::Rejected) => {}
                    Err(BuildErr::Bad(m)) => s.report(Clause::Harness, m),
                }
            }
            NonAcqOp::IsPoisoned => {
                if let Some((pid, v)) = root_poison(node, t, &world.spec, |p| p) {
                    let (st, flying) = self.pstate(&pid);
                    if v {
                        self.probe(|p| p.is_poisoned_true += 1);
                    }
                    if st.must && !v && !flying {
                        s.report(Clause::PoisonModel, format!("is_poisoned() is false for {:?} although a panic unwound during an exclusive hold on it since the last clear [{}]", pid, via_text(st.must_direct)));
                    }
                    if v && !st.may {
                        s.report(Clause::PoisonModel, format!("is_poisoned() is true for {:?} although no panic unwound during any hold on it since the last clear", pid));
                    }
                }
            }
            NonAcqOp::ClearPoison => {
                if let Some(pid) = root_clear(node, t, &world.spec) {
                    self.probe(|p| p.clear_poison += 1);
                    let mut m = self.r.model.lock().unwrap();
                    let flying = m.flying(&pid);
                    let e = m.poison.entry(pid).or_default();
                    e.must = false;
                    e.must_direct = false;
                    // a concurrent unwind may still set the flag after this clear: uncertain; so is a
                    // clear from inside a destructor during an unwind (whatever guard is still alive
                    // there is dropped while thread::panicking())
                    // (under injected raw-lock faults a panic may strike inside any call at any
                    // moment and the model only hears of it once the unwind is over: uncertain throughout)
                    e.may = flying || self.in_unwind || self.raw_faults();
                }
            }
        }
    }
}

/// key-related state that a running closure may touch (kept apart from the key itself so
/// that the key can be lent by `&mut` while the closure runs)
struct KeyProbeCell {
    extra: RefCell<Vec<ThreadKey>>,
}

fn accessors(node: &Node) {
    match node {
        Node::Boxed(c) => {
            let ch: &CN = c.child();
            std::hint::black_box(ch.len());
            for m in c.iter() {
                std::hint::black_box(m as *const Node);
            }
            let r: &CN = c.as_ref();
            std::hint::black_box(r.len());
        }
        Node::Ref(h) => {
            let c = h.get();
            std::hint::black_box(c.child().len());
            let r: &CN = c.as_ref();
            std::hint::black_box(r.len());
        }
        Node::Retry(c) => {
            std::hint::black_box(c.child().len());
            for m in c.iter() {
                std::hint::black_box(m as *const Node);
            }
            let r: &CN = (**c).as_ref();
            std::hint::black_box(r.len());
        }
        Node::Shared(n) => accessors(n),
        _ => {}
    }
}

/// is_poisoned() of the outermost Poisonable of a target, with its model identity
fn root_poison(node: &Node, t: usize, spec: &WorldSpec, f: impl Fn(bool) -> bool) -> Option<(PoisonId, bool)> {
    match node {
        Node::Leaf(l) => {
            let lid = match spec.resolve(&spec.targets[t]).0 {
                TSpec::Leaf(l) => *l,
                _ => return None,
            };
            match l {
                Leaf::PM(p) => Some((PoisonId::Leaf(lid, 0), f(p.is_poisoned()))),
                Leaf::PR(p) => Some((PoisonId::Leaf(lid, 0), f(p.is_poisoned()))),
                Leaf::PPM(p) => Some((PoisonId::Leaf(lid, 0), f(p.is_poisoned()))),
                Leaf::PPR(p) => Some((PoisonId::Leaf(lid, 0), f(p.is_poisoned()))),
                _ => None,
            }
        }
        Node::PBoxed(p) => Some((PoisonId::Coll(spec.resolve(&spec.targets[t]).1.unwrap_or(t), vec![]), f(p.is_poisoned()))),
        Node::PRetry(p) => Some((PoisonId::Coll(spec.resolve(&spec.targets[t]).1.unwrap_or(t), vec![]), f(p.is_poisoned()))),
        Node::Shared(n) => root_poison(n, t, spec, f),
        Node::POwnBoxed(p) => Some((PoisonId::Coll(t, vec![]), f(p.is_poisoned()))),
        Node::POwnRetry(p) => Some((PoisonId::Coll(t, vec![]), f(p.is_poisoned()))),
        Node::POwnOwned(p) => Some((PoisonId::Coll(t, vec![]), f(p.is_poisoned()))),
        Node::PDBoxed(p) => Some((PoisonId::Coll(t, vec![]), f(p.is_poisoned()))),
        Node::PDRetry(p) => Some((PoisonId::Coll(t, vec![]), f(p.is_poisoned()))),
        Node::Tagged(n, _) => root_poison(n, t, spec, f),
        _ => None,
    }
}

fn root_clear(node: &Node, t: usize, spec: &WorldSpec) -> Option<PoisonId> {
    match node {
        Node::Leaf(l) => {
            let lid = match spec.resolve(&spec.targets[t]).0 {
                TSpec::Leaf(l) => *l,
                _ => return None,
            };
            match l {
                Leaf::PM(p) => p.clear_poison(),
                Leaf::PR(p) => p.clear_poison(),
                Leaf::PPM(p) => p.clear_poison(),
                Leaf::PPR(p) => p.clear_poison(),
                _ => return None,
            }
            Some(PoisonId::Leaf(lid, 0))
        }
        Node::PBoxed(p) => {
            p.clear_poison();
            Some(PoisonId::Coll(spec.resolve(&spec.targets[t]).1.unwrap_or(t), vec![]))
        }
        Node::PRetry(p) => {
            p.clear_poison();
            Some(PoisonId::Coll(spec.resolve(&spec.targets[t]).1.unwrap_or(t), vec![]))
        }
        Node::Shared(n) => root_clear(n, t, spec),
        Node::POwnBoxed(p) => {
            p.clear_poison();
            Some(PoisonId::Coll(t, vec![]))
        }
        Node::POwnRetry(p) => {
            p.clear_poison();
            Some(PoisonId::Coll(t, vec![]))
        }
        Node::POwnOwned(p) => {
            p.clear_poison();
            Some(PoisonId::Coll(t, vec![]))
        }
        Node::PDBoxed(p) => {
            p.clear_poison();
            Some(PoisonId::Coll(t, vec![]))
        }
        Node::PDRetry(p) => {
            p.clear_poison();
            Some(PoisonId::Coll(t, vec![]))
        }
        Node::Tagged(n, _) => root_clear(n, t, spec),
        _ => None,
    }
}

struct Th<'r, 'a> {
    st: St<'r, 'a>,
    kh: KeyHolder,
    cell: KeyProbeCell,
}

impl<'r, 'a> Th<'r, 'a> {
    /// obtain the key for an acquiring step (modelled ThreadKey::get when the user holds none)
    fn take_key(&mut self) -> Option<ThreadKey> {
        if let Some(k) = self.kh.key.take() {
            return Some(k);
        }
        let got = ThreadKey::get();
        let expect_some = !self.kh.alive;
        if got.is_some() != expect_some {
            self.st.s().report(
                Clause::KeyModel,
                format!("ThreadKey::get() returned {} but the model says the thread's key is {}", if got.is_some() { "Some" } else { "None" }, if self.kh.alive { "alive" } else { "not alive" }),
            );
        }
        if got.is_some() {
            self.kh.alive = true;
        }
        got
    }

    fn run_api<T: TargetApi>(&mut self, t: &T, ctx: &Ctx) {
        let s = self.st.s();
        let api = ctx.acq.api;
        let key = match self.take_key() {
            Some(k) => k,
            None => {
                self.st.probe(|p| p.skipped_steps += 1);
                return;
            }
        };
        let kind = if api.is_try() { ApiKind::TryAcquire } else { ApiKind::Acquire };
        let q = if api.is_try() && self.st.r.scn.profile == "C13" { Some(self.st.quiescent_pred(ctx)) } else { None };
        if !api.is_scoped() {
            s.api_begin(kind, ctx.retry);
            if !api.is_read() {
                let r = if api.is_try() { t.try_lock(key) } else { Ok(t.lock(key)) };
                let rec = s.api_end();
                match r {
                    Ok(g) => {
                        self.st.check_try_outcome(ctx, &q, true);
                        self.st.after_acquire(ctx, &rec);
                        self.body_and_release(ctx, g, T::unlock, T::send_guard, T::take_apart);
                        self.st.check_try_restored(ctx, &q, "after the guard was released");
                    }
                    Err(k) => {
                        self.st.check_try_outcome(ctx, &q, false);
                        self.st.check_try_restored(ctx, &q, "after the failed attempt");
                        self.st.after_try_fail(ctx, &rec);
                        self.kh.key = Some(k);
                    }
                }
            } else {
                let r = if api.is_try() { t.try_read(key) } else { Ok(t.read(key)) };
                let rec = s.api_end();
                match r {
                    Ok(g) => {
                        self.st.check_try_outcome(ctx, &q, true);
                        self.st.after_acquire(ctx, &rec);
                        self.body_and_release(ctx, g, T::unlock_read, T::send_read_guard, T::take_apart_read);
                        self.st.check_try_restored(ctx, &q, "after the guard was released");
                    }
                    Err(k) => {
                        self.st.check_try_outcome(ctx, &q, false);
                        self.st.check_try_restored(ctx, &q, "after the failed attempt");
                        self.st.after_try_fail(ctx, &rec);
                        self.kh.key = Some(k);
                    }
                }
            }
            return;
        }
        // scoped flavours
        let count = Cell::new(0u32);
        let cell = &self.cell;
        let stc = RefCell::new(&mut self.st);
        s.api_begin(kind, ctx.retry);
        // Ok(()) = closure ran; Err(()) = try failed
        let outcome: Result<(), ()>;
        let escape = T::ESCAPABLE && ctx.acq.body.iter().any(|b| matches!(b, BodyOp::EscapeData(_)));
        let mut escaped: Option<Box<dyn Held + '_>> = None;
        macro_rules! keep {
            ($r:expr) => {
                if let Some(d) = $r {
                    escaped = Some(Box::new(d));
                }
            };
        }
        if ctx.acq.lent_key {
            // the key stays in the holder (it must survive an unwind of the call)
            self.kh.key = Some(key);
            let k: &mut ThreadKey = self.kh.key.as_mut().unwrap();
            macro_rules! clo {
                () => {
                    &|mut d| {
                        count.set(count.get() + 1);
                        let mut st = stc.borrow_mut();
                        st.s().closure_enter();
                        let _scope = ClosureScope(st.s());
                        st.at_closure_entry(ctx);
                        st.body(cell, &mut d, ctx);
                        // the closure may hand what it was given back to its caller
                        if escape {
                            Some(d)
                        } else {
                            None
                        }
                    }
                };
            }
            outcome = match api {
                Api::ScopedLock => {
                    keep!(t.scoped_lock(k, clo!()));
                    Ok(())
                }
                Api::ScopedTryLock => match t.scoped_try_lock(k, clo!()) {
                    Ok(r) => {
                        keep!(r);
                        Ok(())
                    }
                    Err(_) => Err(()),
                },
                Api::ScopedRead => {
                    keep!(t.scoped_read(k, clo!()));
                    Ok(())
                }
                _ => match t.scoped_try_read(k, clo!()) {
                    Ok(r) => {
                        keep!(r);
                        Ok(())
                    }
                    Err(_) => Err(()),
                },
            };
        } else {
            macro_rules! clo {
                () => {
                    &|mut d| {
                        count.set(count.get() + 1);
                        let mut st = stc.borrow_mut();
                        st.s().closure_enter();
                        let _scope = ClosureScope(st.s());
                        st.at_closure_entry(ctx);
                        st.body(cell, &mut d, ctx);
                        // the closure may hand what it was given back to its caller
                        if escape {
                            Some(d)
                        } else {
                            None
                        }
                    }
                };
            }
            outcome = match api {
                Api::ScopedLock => {
                    keep!(t.scoped_lock(key, clo!()));
                    self.kh.alive = false;
                    Ok(())
                }
                Api::ScopedTryLock => match t.scoped_try_lock(key, clo!()) {
                    Ok(r) => {
                        keep!(r);
                        self.kh.alive = false;
                        Ok(())
                    }
                    Err(k) => {
                        self.kh.key = Some(k);
                        Err(())
                    }
                },
                Api::ScopedRead => {
                    keep!(t.scoped_read(key, clo!()));
                    self.kh.alive = false;
                    Ok(())
                }
                _ => match t.scoped_try_read(key, clo!()) {
                    Ok(r) => {
                        keep!(r);
                        self.kh.alive = false;
                        Ok(())
                    }
                    Err(k) => {
                        self.kh.key = Some(k);
                        Err(())
                    }
                },
            };
        }
        drop(stc);
        let rec = s.api_end();
        let held = s.held();
        self.st.check_try_outcome(ctx, &q, outcome.is_ok());
        self.st.check_try_restored(ctx, &q, "after the scoped call returned");
        match outcome {
            Ok(()) => {
                if count.get() != 1 {
                    s.report(Clause::ClosureCount, format!("{:?} on target {} succeeded but invoked the closure {} times", api, ctx.acq.target, count.get()));
                }
                if !held.is_empty() {
                    s.report(Clause::KeyBackWhileHolding, format!("{:?} on target {} returned but the caller still holds {:?}", api, ctx.acq.target, held));
                }
            }
            Err(()) => {
                if count.get() != 0 {
                    s.report(Clause::ClosureCount, format!("{:?} on target {} failed but invoked the closure {} times", api, ctx.acq.target, count.get()));
                }
                self.st.after_try_fail(ctx, &rec);
            }
        }
        if let Some(mut e) = escaped {
            self.st.use_escaped(&mut *e, ctx, std::any::type_name::<T>());
        }
    }

    #[allow(clippy::type_complexity)]
    fn body_and_release<'g, G: Held + 'g>(
        &mut self,
        ctx: &Ctx,
        mut g: G,
        unlock: impl FnOnce(G) -> ThreadKey,
        send: impl FnOnce(G) -> Result<Box<dyn crate::caps::Opaque + Send + 'g>, G>,
        take: impl FnOnce(G) -> Result<Vec<Box<dyn crate::caps::Opaque + 'g>>, G>,
    ) {
        if ctx.acq.release != Release::UnlockInDrop {
            self.st.body(&self.cell, &mut g, ctx);
            self.release(ctx, g, unlock, send, take);
            return;
        }
        // the guard lives inside a user value whose destructor hands it to unlock(): that runs
        // on the normal path and, if the section panics, during the unwind
        struct OnDrop<G, F: FnOnce(G) -> ThreadKey>(Option<G>, Option<F>);
        impl<G, F: FnOnce(G) -> ThreadKey> Drop for OnDrop<G, F> {
            fn drop(&mut self) {
                if let (Some(g), Some(f)) = (self.0.take(), self.1.take()) {
                    drop(f(g));
                }
            }
        }
        let mut w = OnDrop(Some(g), Some(unlock));
        self.st.body(&self.cell, w.0.as_mut().unwrap(), ctx);
        let s = self.st.s();
        s.api_begin(ApiKind::Release, false);
        drop(w);
        let _rec = s.api_end();
        self.kh.alive = false;
        let held = s.held();
        if !held.is_empty() {
            s.report(Clause::KeyBackWhileHolding, format!("guard of {:?} on target {} was unlocked from a destructor but the caller still holds {:?}", ctx.acq.api, ctx.acq.target, held));
        }
    }

    #[allow(clippy::type_complexity)]
    fn release<'g, G: 'g>(
        &mut self,
        ctx: &Ctx,
        g: G,
        unlock: impl FnOnce(G) -> ThreadKey,
        send: impl FnOnce(G) -> Result<Box<dyn crate::caps::Opaque + Send + 'g>, G>,
        take: impl FnOnce(G) -> Result<Vec<Box<dyn crate::caps::Opaque + 'g>>, G>,
    ) {
        let s = self.st.s();
        if ctx.acq.release == Release::TakeApart {
            s.api_begin(ApiKind::Release, false);
            let r = take(g);
            let _ = s.api_end();
            match r {
                Ok(pieces) => {
                    self.st.probe(|p| p.guards_taken_apart += 1);
                    // the iterator is gone; if the key is obtainable again, nothing may still be held
                    let k = ThreadKey::get();
                    let held = s.held();
                    if k.is_some() && !held.is_empty() {
                        s.report(Clause::KeyBackWhileHolding, format!("the guard of {:?} on target {} was consumed by value (IntoIterator), its {} items were kept and the iterator dropped: the thread's key is obtainable again while it still holds {:?}", ctx.acq.api, ctx.acq.target, pieces.len(), held));
                    }
                    s.api_begin(ApiKind::Release, false);
                    drop(pieces);
                    let _ = s.api_end();
                    match k.or_else(ThreadKey::get) {
                        Some(k) => self.kh.key = Some(k),
                        None => self.kh.leaked = true,
                    }
                }
                Err(g) => {
                    self.st.probe(|p| p.take_apart_refused += 1);
                    s.api_begin(ApiKind::Release, false);
                    drop(g);
                    self.kh.alive = false;
                    let _ = s.api_end();
                    let held = s.held();
                    if !held.is_empty() {
                        s.report(Clause::KeyBackWhileHolding, format!("guard of {:?} on target {} was dropped but the caller still holds {:?}", ctx.acq.api, ctx.acq.target, held));
                    }
                }
            }
            return;
        }
        if ctx.acq.release == Release::SendAway {
            match send(g) {
                Ok(b) => {
                    // the guard borrows the target, which outlives the run's threads
                    let b: Box<dyn crate::caps::Opaque + Send + 'static> = unsafe { std::mem::transmute::<Box<dyn crate::caps::Opaque + Send + 'g>, Box<dyn crate::caps::Opaque + Send + 'static>>(b) };
                    self.st.r.sent_guards.lock().unwrap().push((self.st.tid, b));
                    self.st.probe(|p| p.guards_sent += 1);
                    // this thread's key travels inside the guard
                }
                Err(g) => {
                    self.st.probe(|p| p.guard_send_refused += 1);
                    s.api_begin(ApiKind::Release, false);
                    drop(g);
                    self.kh.alive = false;
                    let _ = s.api_end();
                    let held = s.held();
                    if !held.is_empty() {
                        s.report(Clause::KeyBackWhileHolding, format!("guard of {:?} on target {} was dropped but the caller still holds {:?}", ctx.acq.api, ctx.acq.target, held));
                    }
                }
            }
            return;
        }
        s.api_begin(ApiKind::Release, false);
        match ctx.acq.release {
            Release::Drop => {
                drop(g);
                self.kh.alive = false;
            }
            Release::Unlock => {
                let k = unlock(g);
                self.kh.key = Some(k);
            }
            Release::Forget => {
                std::mem::forget(g);
                self.kh.leaked = true;
            }
            Release::UnlockInDrop | Release::SendAway | Release::TakeApart => unreachable!("happysim: handled elsewhere"),
        }
        let _rec = s.api_end();
        if ctx.acq.release != Release::Forget {
            let held = s.held();
            if !held.is_empty() {
                let how = if self.st.stolen.is_empty() { "" } else { " (the member guards had been moved out of it with mem::take)" };
                s.report(Clause::KeyBackWhileHolding, format!("guard of {:?} on target {} was released ({:?}){} but the caller still holds {:?}", ctx.acq.api, ctx.acq.target, ctx.acq.release, how, held));
            }
        }
        if !self.st.stolen.is_empty() {
            s.api_begin(ApiKind::Release, false);
            self.st.stolen.clear();
            let _ = s.api_end();
        }
    }

    fn dispatch(&mut self, node: &Node, ctx: &Ctx) {
        match node {
            Node::Leaf(l) => match l {
                Leaf::M(x) => self.run_api(x, ctx),
                Leaf::R(x) => self.run_api(x, ctx),
                Leaf::PM(x) => self.run_api(x, ctx),
                Leaf::PR(x) => self.run_api(x, ctx),
                Leaf::PPM(x) => self.run_api(x, ctx),
                Leaf::PPR(x) => self.run_api(x, ctx),
                Leaf::ZM(_) | Leaf::ZR(_) => self.st.s().report(Clause::Harness, "a (empty collection, lock) pair was generated as a stand-alone target".into()),
            },
            Node::Unit(u) => self.run_api(*u, ctx),
            Node::Boxed(c) => self.run_api(c, ctx),
            Node::Ref(h) => self.run_api(h.get(), ctx),
            Node::Retry(c) => self.run_api(&**c, ctx),
            Node::PBoxed(c) => self.run_api(&**c, ctx),
            Node::PRetry(c) => self.run_api(&**c, ctx),
            Node::Shared(n) => self.dispatch(n, ctx),
            Node::OwnBoxed(c) => self.run_api(c, ctx),
            Node::OwnRetry(c) => self.run_api(&**c, ctx),
            Node::OwnRef(h) => self.run_api(h.get(), ctx),
            Node::OwnOwned(c) => self.run_api(&**c, ctx),
            Node::POwnBoxed(c) => self.run_api(&**c, ctx),
            Node::POwnRetry(c) => self.run_api(&**c, ctx),
            Node::POwnOwned(c) => self.run_api(&**c, ctx),
            Node::Tagged(n, _) => self.dispatch(n, ctx),
            Node::DRef(c) => self.run_api(c, ctx),
            Node::DBoxed(c) => self.run_api(c, ctx),
            Node::DRetry(c) => self.run_api(&**c, ctx),
            Node::PDBoxed(c) => self.run_api(&**c, ctx),
            Node::PDRetry(c) => self.run_api(&**c, ctx),
            Node::RUnit(u) => self.run_api(*u, ctx),
            Node::MBoxed(c) => self.run_api(c, ctx),
            Node::MRetry(c) => self.run_api(&**c, ctx),
            Node::MOwned(_) => self.st.s().report(Clause::Harness, "owned collection over &mut & members cannot be locked through the checked API".into()),
            Node::MRef(h) => self.run_api(h.get(), ctx),
            Node::Slice(n) => match n {
                SNode::BoxedV(c) => self.run_api(c, ctx),
                SNode::BoxedB(c) => self.run_api(c, ctx),
                SNode::RetryV(c) => self.run_api(&**c, ctx),
                SNode::RefB(h) => self.run_api(h.get(), ctx),
                SNode::PBoxedV(c) => self.run_api(&**c, ctx),
                SNode::PRetryB(c) => self.run_api(&**c, ctx),
                SNode::BoxedA2(c) => self.run_api(c, ctx),
                SNode::RetryA3(c) => self.run_api(&**c, ctx),
            },
            Node::Group(_) | Node::Group0 => self.st.s().report(Clause::Harness, "a bare container was generated as a top-level target".into()),
        }
    }

    /// C16: run a destruction path on a shared target; the values it returns must be the
    /// stored ones, at the declared positions, reflecting the last write made under a lock
    fn destroy(&mut self, t: usize, dtor: Dtor) {
        let world = self.st.r.world;
        let s = self.st.s();
        let spec_t = world.spec.targets[t].clone();
        // once the run's verdict is frozen every thread runs on unchecked: nothing that other
        // threads may still be using is taken apart any more
        if s.lock().abort {
            return;
        }
        let node = match world.take_target(t) {
            Some(n) => n,
            None => return,
        };
        let flat = world.spec.flatten(&spec_t, Some(t));
        let before = s.held();
        s.api_begin(ApiKind::NonAcq, false);
        let vals = run_dtor(*node, dtor);
        s.api_end();
        let after = s.held();
        if before != after {
            s.report(Clause::NonAcqStateChanged, format!("{:?} of target {} changed the caller's holds from {:?} to {:?}", dtor, t, before, after));
        }
        self.st.probe(|p| p.destroys += 1);
        if let Some(vals) = vals {
            self.st.probe(|p| p.roundtrip_values += vals.len() as u64);
            if vals.len() != flat.len() {
                s.report(Clause::RoundTrip, format!("{:?} of target {} returned {} values, the collection has {} leaves", dtor, t, vals.len(), flat.len()));
                return;
            }
            for (i, (lid, val, layers)) in vals.iter().enumerate() {
                let fl = &flat[i];
                if *lid as usize != fl.lid {
                    s.report(Clause::RoundTrip, format!("{:?} of target {} returned the value of lock {} at position {} where lock {} was declared", dtor, t, lid, i, fl.lid));
                    continue;
                }
                let shadow = s.lock().shadow[fl.lid];
                if *val != shadow {
                    s.report(Clause::RoundTrip, format!("{:?} of target {} returned {} for lock {} but the last write made under the lock left {}", dtor, t, val, fl.lid, shadow));
                }
                if layers.len() == fl.poison.len() {
                    for (k, &is_err) in layers.iter().enumerate() {
                        let (st, flying) = self.st.pstate(&fl.poison[k]);
                        if st.must && !is_err && !flying {
                            s.report(Clause::PoisonModel, format!("{:?} reported Ok for {:?} although a panic unwound during an exclusive hold on it since the last clear [{}]", dtor, fl.poison[k], via_text(st.must_direct)));
                        }
                        if is_err && !st.may {
                            s.report(Clause::PoisonModel, format!("{:?} reported Err(poisoned) for {:?} although no panic unwound during any hold on it since the last clear", dtor, fl.poison[k]));
                        }
                    }
                }
            }
        }
    }

    fn acquire(&mut self, acq: &Acq) {
        let world = self.st.r.world;
        let s = self.st.s();
        let spec_t = &world.spec.targets[acq.target];
        let private_node;
        let private_flat;
        let rebuildable = !matches!(spec_t, TSpec::Own { .. });
        let (node, flat): (&Node, &[FlatLeaf]) = if acq.rebuild && rebuildable {
            match world.build(spec_t, s) {
                Ok(mut n) => {
                    if acq.mutate {
                        let fl = world.spec.flatten(spec_t, None);
                        // the extra listing is of the *last* member: the element routes overwrite the first one
                        if let (Node::Retry(c), Some(last)) = (&mut n, fl.last()) {
                            if let Some(leaf) = world.leaf(last.lid) {
                                if relist_through_child_mut(c, Node::Leaf(leaf)).is_some() {
                                    self.st.probe(|p| p.relisted_through_child_mut += 1);
                                }
                            }
                        }
                    }
                    private_node = n;
                    private_flat = world.spec.flatten(spec_t, None);
                    (&private_node, &private_flat[..])
                }
                Err(BuildErr::Rejected) => {
                    self.st.probe(|p| p.rejected_targets += 1);
                    return;
                }
                Err(BuildErr::Bad(m)) => {
                    s.report(Clause::Harness, m);
                    return;
                }
            }
        } else {
            match world.target(acq.target) {
                Some(n) => (n, &self.st.r.flats[acq.target][..]),
                None => {
                    self.st.probe(|p| p.rejected_targets += 1);
                    return;
                }
            }
        };
        if acq.api.is_read() && !flat.iter().all(|f| f.kind.is_rw()) {
            s.report(Clause::Harness, format!("read API generated for target {} which has Mutex leaves", acq.target));
            return;
        }
        let retry = world.spec.root_kind(spec_t) == Some(CollKind::Retry);
        let sorting = matches!(world.spec.root_kind(spec_t), Some(CollKind::Boxed) | Some(CollKind::Ref));
        let flat_owned: Vec<FlatLeaf> = flat.to_vec();
        let root_poisonable = match world.spec.resolve(spec_t).0 {
            TSpec::Leaf(l) => world.spec.leaves[*l].layers() > 0,
            TSpec::Coll { poison, .. } => *poison,
            _ => false,
        };
        let ctx = Ctx { acq, flat: &flat_owned, retry, sorting, root_poisonable, shared: acq.api.is_read(), private: acq.rebuild };
        self.st.private_poison.clear();
        if self.st.raw_faults() {
            // a raw-lock panic may strike inside this call and unwind through live guards, and
            // other threads may look before this thread has finished unwinding: from here on
            // the Poisonables the call covers may be found poisoned
            let ids = world.spec.poison_ids(spec_t, if acq.rebuild { None } else { Some(acq.target) });
            let mut m = self.st.r.model.lock().unwrap();
            for p in ids {
                if !matches!(p, PoisonId::Private(_)) {
                    m.poison.entry(p).or_default().may = true;
                }
            }
        }
        self.dispatch(node, &ctx);
    }

    fn exec(&mut self, step: &Step) {
        let s = self.st.s();
        match step {
            Step::Acquire(a) => self.acquire(a),
            Step::NonAcq(op, t) => self.st.nonacq(*op, *t),
            Step::GateOpen(g) => s.gate_open(*g),
            Step::GateWait(g) => s.gate_wait(*g),
            Step::Yield => s.yield_point(),
            Step::WaitBlocked(t, l) => s.wait_blocked(*t, *l),
            Step::DropForeignGuard => {
                let me = self.st.tid;
                let got = {
                    let mut sg = self.st.r.sent_guards.lock().unwrap();
                    let pos = sg.iter().position(|(from, _)| *from != me);
                    pos.map(|p| sg.remove(p))
                };
                if let Some((_, g)) = got {
                    self.st.probe(|p| p.foreign_guards_dropped += 1);
                    s.api_begin(ApiKind::Release, false);
                    drop(g);
                    let _ = s.api_end();
                }
            }
            Step::Destroy(t, d) => self.destroy(*t, *d),
            Step::InUnwind(_) => unreachable!("happysim: InUnwind is handled by run_step"),
            Step::Key(k) => match k {
                KeyOp::Get => {
                    let got = ThreadKey::get();
                    self.st.probe(|p| p.key_probes += 1);
                    let expect_some = !self.kh.alive;
                    if got.is_some() != expect_some {
                        s.report(Clause::KeyModel, format!("ThreadKey::get() returned {} but the model says the thread's key is {}", if got.is_some() { "Some" } else { "None" }, if self.kh.alive { "alive" } else { "not alive" }));
                    }
                    if let Some(k) = got {
                        self.kh.alive = true;
                        if self.kh.key.is_none() {
                            self.kh.key = Some(k);
                        } else {
                            self.kh.extra.push(k);
                        }
                    }
                }
                KeyOp::Drop => {
                    if let Some(k) = self.kh.key.take() {
                        drop(k);
                        self.kh.alive = false;
                    }
                }
                KeyOp::Forget => {
                    if let Some(k) = self.kh.key.take() {
                        std::mem::forget(k);
                        self.kh.leaked = true;
                    }
                }
                KeyOp::GetMany(n) => {
                    self.st.probe(|p| p.key_probes += *n as u64);
                    for k in 0..*n {
                        let got = ThreadKey::get();
                        let expect_some = !self.kh.alive;
                        if got.is_some() != expect_some {
                            s.report(Clause::KeyModel, format!("request {} of {} in a row: ThreadKey::get() returned {} but the model says the thread's key is {}", k + 1, n, if got.is_some() { "Some" } else { "None" }, if self.kh.alive { "alive" } else { "not alive" }));
                        }
                        if let Some(key) = got {
                            self.kh.alive = true;
                            if self.kh.key.is_none() {
                                self.kh.key = Some(key);
                            } else {
                                self.kh.extra.push(key);
                            }
                            if !expect_some {
                                break;
                            }
                        }
                    }
                }
                KeyOp::Send => {
                    #[allow(unused_imports)]
                    use crate::caps::CapNo as _;
                    if let Some(k) = self.take_key() {
                        match crate::caps::cap::<ThreadKey>().boxed_send(k) {
                            Ok(b) => {
                                // the key lives on in another thread: this thread cannot get a new one
                                self.st.r.mailbox.lock().unwrap().push(b);
                                self.st.probe(|p| p.keys_sent += 1);
                            }
                            Err(k) => {
                                self.kh.key = Some(k);
                                self.st.probe(|p| p.key_send_refused += 1);
                            }
                        }
                    }
                }
            },
        }
    }

    /// what must be true after an unwind left step `step`
    fn after_unwind(&mut self, step: &Step, payload: Box<dyn std::any::Any + Send>, recs: Vec<ApiRec>) {
        let s = self.st.s();
        s.set_user_unwinding(false);
        let tid = self.st.tid;
        let lent = matches!(step, Step::Acquire(a) if a.lent_key && a.api.is_scoped());
        // the key: a lent key is still in the holder; an owned key was dropped by the unwind
        if !lent || self.kh.key.is_none() {
            self.kh.key = None;
            if !self.kh.leaked {
                self.kh.alive = false;
            }
        }
        if payload.is::<sched::AbortEscape>() {
            return;
        }
        let held = s.held();
        if payload.is::<Injected>() {
            if !held.is_empty() {
                s.report(Clause::LeakAfterUserPanic, format!("after a user panic in step {:?} unwound, the thread still holds {:?}", self.st.step, held));
            }
            if !lent && !self.kh.leaked {
                match ThreadKey::get() {
                    Some(k) => {
                        self.kh.key = Some(k);
                        self.kh.alive = true;
                    }
                    None => s.report(Clause::KeyLostAfterPanic, format!("after a user panic in step {} unwound, ThreadKey::get() returns None", self.st.step)),
                }
            } else if lent && self.kh.key.is_some() {
                // the lent key is still alive in the caller's hands: no second key may exist
                self.st.probe(|p| p.key_probes += 1);
                if let Some(k) = ThreadKey::get() {
                    s.report(Clause::KeyModel, format!("after a user panic unwound out of a scoped call that was only lent the key (step {}), ThreadKey::get() returned a second key", self.st.step));
                    self.kh.extra.push(k);
                }
            }
            self.st.r.model.lock().unwrap().in_flight[tid].clear();
        } else if payload.is::<RawFault>() {
            self.st.probe(|p| p.raw_unwinds += 1);
            self.after_raw_fault(step, &recs);
        } else {
            let msg = panic_message(&*payload);
            let loc = crate::LAST_PANIC_LOC.with(|l| l.borrow().clone());
            let in_harness = loc.starts_with("src/") || loc.contains("/sim/src/");
            if msg.starts_with("happysim:") || in_harness {
                s.report(Clause::Harness, format!("{} (at {})", msg, loc));
            } else if self.st.raw_faults() && (msg.contains("killed") || self.step_touches_faulted(step)) {
                // acquiring a lock that an earlier fault killed panics by design (whatever the
                // panic says)
                self.st.probe(|p| p.lib_panics += 1);
                self.after_raw_fault(step, &recs);
            } else if msg.contains("killed") {
                s.report(Clause::PlainKilled, format!("library panicked with {:?} in a run without raw-lock faults", msg));
            } else {
                s.report(Clause::HeldNeLeafset, format!("library panicked unexpectedly in step {}: {:?}", self.st.step, msg));
            }
            self.st.r.model.lock().unwrap().in_flight[tid].clear();
        }
    }

    /// does the step's target contain a lock on which a raw fault has fired?
    fn step_touches_faulted(&self, step: &Step) -> bool {
        let inner = match step {
            Step::InUnwind(s) => &**s,
            s => s,
        };
        let spec = &self.st.r.world.spec;
        let t = match inner {
            Step::Acquire(a) => a.target,
            Step::NonAcq(_, t) | Step::Destroy(t, _) => *t,
            _ => return false,
        };
        let g = self.st.s().lock();
        spec.flatten(&spec.targets[t], None).iter().any(|f| g.locks[f.lid].faulted)
    }

    fn after_raw_fault(&mut self, step: &Step, _recs: &[ApiRec]) {
        let s = self.st.s();
        let tid = self.st.tid;
        // a raw-lock panic that unwinds through live guards may poison what they cover
        if let Step::Acquire(a) = step {
            let spec = &self.st.r.world.spec;
            let ids = spec.poison_ids(&spec.targets[a.target], if a.rebuild { None } else { Some(a.target) });
            let mut m = self.st.r.model.lock().unwrap();
            for p in ids {
                m.poison.entry(p).or_default().may = true;
            }
        }
        // every lock other than those whose own operation panicked must be free of this thread
        let (leaked, faulted): (Vec<(Lid, bool)>, Vec<Lid>) = {
            let g = s.lock();
            let held = g.held_by(tid);
            // (a lock that *another* thread's operation faulted on, and which this thread then
            // acquired in the ordinary way, is an ordinary hold of this thread: it must be gone too)
            let leaked = held.into_iter().filter(|(l, _)| !g.locks[*l].faulted || g.locks[*l].fault_by != Some(tid)).collect();
            let faulted = (0..g.locks.len()).filter(|&l| g.locks[l].faulted).collect();
            (leaked, faulted)
        };
        if !leaked.is_empty() {
            s.report(Clause::RawLeak, format!("after a raw-lock panic unwound out of step {}, the thread still holds {:?} (locks whose own operation panicked: {:?})", self.st.step, leaked, faulted));
        }
        // harness cleanup: holds on faulted locks can never be released by the library (it cannot
        // know whether the operation took effect); drop them from the owner table
        {
            let mut g = s.lock();
            for &l in &faulted {
                if g.locks[l].excl == Some(tid) {
                    g.locks[l].excl = None;
                }
                g.locks[l].shared.retain(|&t| t != tid);
            }
        }
        if !self.kh.leaked && self.kh.key.is_none() {
            match ThreadKey::get() {
                Some(k) => {
                    self.kh.key = Some(k);
                    self.kh.alive = true;
                }
                // (the statement of C12 does not mention the key; nothing is reported here)
                None => {}
            }
        }
        self.fault_probes();
    }

    fn rekey_after_probe(&mut self, lid: Lid) {
        let s = self.st.s();
        self.kh.key = None;
        self.kh.alive = false;
        if let Some(k) = ThreadKey::get() {
            self.kh.key = Some(k);
            self.kh.alive = true;
        }
        let mut g = s.lock();
        if g.locks[lid].excl == Some(self.st.tid) {
            g.locks[lid].excl = None;
        }
        let me = self.st.tid;
        g.locks[lid].shared.retain(|&t| t != me);
    }

    /// owned units give no access to their members: probe the unit as a whole. A unit with a
    /// faulted member must refuse; a unit whose members are all healthy must not have been killed.
    fn unit_probes(&mut self) {
        let s = self.st.s();
        let world = self.st.r.world;
        for (u, us) in world.spec.units.iter().enumerate() {
            if us.by_ref || us.leaves.is_empty() {
                continue;
            }
            let unit = match world.unit(u) {
                Some(x) => x,
                None => continue,
            };
            let (any_faulted, all_free, any_evil) = {
                let g = s.lock();
                (
                    us.leaves.iter().any(|l| g.locks[*l].faulted),
                    us.leaves.iter().all(|l| g.locks[*l].excl.is_none() && g.locks[*l].shared.is_empty()),
                    us.leaves.iter().any(|l| g.locks[*l].evil.iter().any(|e| *e)),
                )
            };
            if any_evil || (!any_faulted && !all_free) {
                continue;
            }
            let key = match self.take_key() {
                Some(k) => k,
                None => return,
            };
            self.st.probe(|p| p.fault_probes += 1);
            if std::thread::panicking() {
                let mut m = self.st.r.model.lock().unwrap();
                for l in &us.leaves {
                    for d in 0..world.spec.leaves[*l].layers() {
                        m.poison.entry(PoisonId::Leaf(*l, d)).or_default().may = true;
                    }
                }
            }
            s.api_begin(ApiKind::Probe, false);
            let r = catch_unwind(AssertUnwindSafe(|| match TargetApi::try_lock(unit, key) {
                Ok(g) => Ok(<Unit as TargetApi>::unlock(g)),
                Err(k) => Err(k),
            }));
            let recs = s.api_unwind_to(0);
            let raw_ops: u32 = recs.iter().map(|r| r.raw_ops).sum();
            match r {
                Ok(Ok(k)) => {
                    self.kh.key = Some(k);
                    if any_faulted {
                        s.report(Clause::FaultedUsable, format!("owned unit {} has a member whose raw operation panicked, yet a later try-acquisition of the unit succeeded", u));
                    }
                }
                Ok(Err(k)) => {
                    self.kh.key = Some(k);
                    if !any_faulted && raw_ops == 0 {
                        s.report(Clause::RawCollateralKill, format!("no member of owned unit {} ever had a raw operation panic, yet a later try-acquisition was refused without even trying a raw lock (a member has been killed)", u));
                    }
                }
                Err(_) => {
                    self.kh.key = None;
                    self.kh.alive = false;
                    if let Some(k) = ThreadKey::get() {
                        self.kh.key = Some(k);
                        self.kh.alive = true;
                    }
                }
            }
        }
    }

    /// later acquisitions: a lock whose operation panicked refuses; a healthy free lock works
    fn fault_probes(&mut self) {
        self.unit_probes();
        let s = self.st.s();
        let world = self.st.r.world;
        let nl = world.spec.leaves.len();
        for lid in 0..nl {
            let leaf = match world.leaf(lid) {
                Some(l) => l,
                None => continue,
            };
            let (faulted, free, evil_try) = {
                let g = s.lock();
                (g.locks[lid].faulted, g.locks[lid].excl.is_none() && g.locks[lid].shared.is_empty(), g.locks[lid].evil[1])
            };
            if !faulted && !free {
                continue;
            }
            let key = match self.take_key() {
                Some(k) => k,
                None => return,
            };
            self.st.probe(|p| p.fault_probes += 1);
            if std::thread::panicking() {
                // probing from inside a destructor during an unwind: the probe's own guard is
                // dropped while thread::panicking() and may poison what it covers
                let mut m = self.st.r.model.lock().unwrap();
                for d in 0..world.spec.leaves[lid].layers() {
                    m.poison.entry(PoisonId::Leaf(lid, d)).or_default().may = true;
                }
            }
            s.api_begin(ApiKind::Probe, false);
            let r = catch_unwind(AssertUnwindSafe(|| probe_try(leaf, key)));
            let probe_rec = s.api_end();
            match r {
                Ok(Ok(k)) => {
                    // acquired and released again
                    self.kh.key = Some(k);
                    if faulted {
                        s.report(Clause::FaultedUsable, format!("lock {} had a raw operation panic, yet a later try-acquisition succeeded", lid));
                    }
                }
                Ok(Err(k)) => {
                    self.kh.key = Some(k);
                    // a refusal without any raw operation means the lock has been killed; a
                    // refusal after a raw try means somebody held it at that moment (no verdict)
                    if !faulted && !evil_try && probe_rec.raw_ops == 0 {
                        s.report(Clause::RawCollateralKill, format!("lock {} never had a raw operation panic, yet a later try-acquisition was refused without even trying the raw lock (it has been killed)", lid));
                    }
                }
                Err(_) => {
                    // try on a persistently faulty lock may itself panic; the key was consumed
                    self.kh.key = None;
                    self.kh.alive = false;
                    if let Some(k) = ThreadKey::get() {
                        self.kh.key = Some(k);
                        self.kh.alive = true;
                    }
                    let mut g = s.lock();
                    if g.locks[lid].excl == Some(self.st.tid) {
                        g.locks[lid].excl = None;
                    }
                }
            }
            if faulted && world.spec.leaves[lid].is_rw() {
                // the shared flavours must refuse a killed lock as well
                if let Some(key) = self.take_key() {
                    s.api_begin(ApiKind::Probe, false);
                    let r = catch_unwind(AssertUnwindSafe(|| probe_try_read(leaf, key)));
                    s.api_unwind_to(0);
                    match r {
                        Ok(Ok(k)) => {
                            self.kh.key = Some(k);
                            s.report(Clause::FaultedUsable, format!("lock {} had a raw operation panic, yet a later try_read succeeded", lid));
                        }
                        Ok(Err(k)) => self.kh.key = Some(k),
                        Err(_) => self.rekey_after_probe(lid),
                    }
                }
                if let Some(key) = self.take_key() {
                    s.api_begin(ApiKind::Probe, false);
                    let r = catch_unwind(AssertUnwindSafe(|| probe_read(leaf, key)));
                    s.api_unwind_to(0);
                    match r {
                        Ok(k) => {
                            self.kh.key = Some(k);
                            s.report(Clause::FaultedUsable, format!("lock {} had a raw operation panic, yet a later blocking read succeeded", lid));
                        }
                        Err(_) => self.rekey_after_probe(lid),
                    }
                }
            }
            if faulted {
                // blocking acquisition must panic (and must not reach the raw lock)
                let key = match self.take_key() {
                    Some(k) => k,
                    None => return,
                };
                let before = s.lock().stats.raw_ops;
                s.api_begin(ApiKind::Probe, false);
                let r = catch_unwind(AssertUnwindSafe(|| probe_lock(leaf, key)));
                s.api_unwind_to(0);
                let after = s.lock().stats.raw_ops;
                match r {
                    Ok(k) => {
                        self.kh.key = Some(k);
                        s.report(Clause::FaultedUsable, format!("lock {} had a raw operation panic, yet a later blocking acquisition succeeded", lid));
                    }
                    Err(_) => {
                        let _ = (before, after);
                        self.kh.key = None;
                        self.kh.alive = false;
                        if let Some(k) = ThreadKey::get() {
                            self.kh.key = Some(k);
                            self.kh.alive = true;
                        }
                        let mut g = s.lock();
                        if g.locks[lid].excl == Some(self.st.tid) {
                            g.locks[lid].excl = None;
                        }
                    }
                }
            }
        }
    }

    /// one step with its own unwind boundary and the post-unwind oracles
    fn run_step(&mut self, i: usize, step: &Step) {
        let s = self.st.s();
        self.st.step = i;
        if let Step::InUnwind(inner) = step {
            // the inner step runs inside a destructor while an unrelated panic unwinds
            // (thread::panicking() is true throughout); guards dropped normally in there
            // legitimately poison what they cover
            if let Step::Acquire(a) = &**inner {
                let spec = &self.st.r.world.spec;
                let ids = spec.poison_ids(&spec.targets[a.target], if a.rebuild { None } else { Some(a.target) });
                let mut m = self.st.r.model.lock().unwrap();
                for p in &ids {
                    m.poison.entry(p.clone()).or_default().may = true;
                }
                // for other threads this is an unwind in flight over those Poisonables
                let tid = self.st.tid;
                m.in_flight[tid] = ids;
            }
            struct RunOnDrop<'x, 'r, 'a>(*mut Th<'r, 'a>, usize, &'x Step);
            impl Drop for RunOnDrop<'_, '_, '_> {
                fn drop(&mut self) {
                    // safety: the interpreter outlives this frame and is not otherwise borrowed
                    unsafe { (*self.0).run_step(self.1, self.2) }
                }
            }
            self.st.in_unwind = true;
            // taken after the last direct use of `self` before the frame below is gone
            let me: *mut Th<'r, 'a> = self;
            let _ = catch_unwind(AssertUnwindSafe(|| {
                let _d = RunOnDrop(me, i, &**inner);
                resume_unwind(Box::new(Injected));
            }));
            self.st.in_unwind = false;
            let tid = self.st.tid;
            self.st.r.model.lock().unwrap().in_flight[tid].clear();
            return;
        }
        let depth = s.api_depth();
        let faults0 = s.faults_fired_by_me();
        self.st.panic_thrown = false;
        let r = catch_unwind(AssertUnwindSafe(|| self.exec(step)));
        crate::api::BOMB_ARMED.with(|b| b.set(false));
        match r {
            Err(p) => {
                let recs = s.api_unwind_to(depth);
                if self.st.panic_thrown && !p.is::<Injected>() && !p.is::<RawFault>() && !p.is::<sched::AbortEscape>() && !self.st.raw_faults() {
                    s.report(Clause::PayloadLost, format!("user code panicked in step {} but what reached the caller is a different panic: {:?}", i, panic_message(&*p)));
                }
                self.after_unwind(step, p, recs);
            }
            Ok(()) if self.st.panic_thrown => {
                s.set_user_unwinding(false);
                s.report(Clause::PayloadLost, format!("user code panicked in step {} but the panic did not propagate: the call returned normally", i));
                self.st.r.model.lock().unwrap().in_flight[self.st.tid].clear();
            }
            Ok(()) => {
                if s.faults_fired_by_me() != faults0 {
                    s.report(Clause::RawPanicLost, format!("a raw-lock operation panicked during step {} but the panic never reached the caller (the step returned normally)", i));
                }
            }
        }
        self.st.probe(|p| p.steps_done += 1);
    }

    fn run(&mut self, steps: &[Step]) {
        for (i, step) in steps.iter().enumerate() {
            self.run_step(i, step);
        }
        // thread end: give the key back
        self.kh.key.take();
        self.kh.extra.clear();
        self.cell.extra.borrow_mut().clear();
    }
}

type Val = (u32, u64, Vec<bool>);

fn open<T>(r: happylock::poisonable::PoisonResult<T>, layers: &mut Vec<bool>) -> T {
    match r {
        Ok(x) => {
            layers.push(false);
            x
        }
        Err(e) => {
            layers.push(true);
            e.into_inner()
        }
    }
}

fn out_vals(v: Vec<LeafOut>, outer: &[bool]) -> Vec<Val> {
    v.into_iter()
        .map(|o| {
            let mut l = outer.to_vec();
            l.extend(o.layers.iter().copied());
            (o.pay.lid, o.pay.peek(), l)
        })
        .collect()
}

fn leaf_vals(v: Vec<Leaf>, outer: &[bool]) -> Vec<Val> {
    out_vals(v.into_iter().map(happylock::lockable::LockableIntoInner::into_inner).collect(), outer)
}

fn mut_vals(acc: ContAcc<LeafMut<'_>>, outer: &[bool]) -> Vec<Val> {
    acc.into_vec()
        .into_iter()
        .map(|m| {
            let mut l = outer.to_vec();
            l.extend(m.layers.iter().copied());
            (m.pay.lid, m.pay.peek(), l)
        })
        .collect()
}

/// run one destruction path; Some(values in declared order) when the path hands values back
fn run_dtor(node: Node, dtor: Dtor) -> Option<Vec<Val>> {
    use happylock::lockable::LockableGetMut;
    match (node, dtor) {
        (Node::OwnBoxed(c), Dtor::IntoChild) => Some(leaf_vals(c.into_child().into_vec(), &[])),
        (Node::OwnBoxed(c), Dtor::IntoInner) => Some(out_vals(c.into_inner().into_vec(), &[])),
        (Node::OwnBoxed(c), Dtor::IntoIter) => Some(leaf_vals(c.into_iter().collect(), &[])),
        (Node::OwnRetry(c), Dtor::IntoChild) => Some(leaf_vals(c.into_child().into_vec(), &[])),
        (Node::OwnRetry(c), Dtor::IntoInner) => Some(out_vals(c.into_inner().into_vec(), &[])),
        (Node::OwnRetry(c), Dtor::IntoIter) => Some(leaf_vals((*c).into_iter().collect(), &[])),
        (Node::OwnRetry(mut c), Dtor::GetMut) => Some(mut_vals(c.get_mut(), &[])),
        (Node::OwnRetry(mut c), Dtor::ChildMut) => Some(mut_vals(LockableGetMut::get_mut(c.child_mut()), &[])),
        (Node::OwnRetry(mut c), Dtor::IterMut) => Some(c.iter_mut().map(|l| { let m = LockableGetMut::get_mut(l); (m.pay.lid, m.pay.peek(), m.layers) }).collect()),
        (Node::OwnRetry(mut c), Dtor::AsMut) => {
            let inner: &mut CL = AsMut::as_mut(&mut *c);
            Some(mut_vals(LockableGetMut::get_mut(inner), &[]))
        }
        (Node::OwnOwned(mut c), Dtor::AsMut) => {
            let inner: &mut CL = AsMut::as_mut(&mut *c);
            Some(mut_vals(LockableGetMut::get_mut(inner), &[]))
        }
        (Node::OwnOwned(c), Dtor::IntoChild) => Some(leaf_vals(c.into_child().into_vec(), &[])),
        (Node::OwnOwned(c), Dtor::IntoInner) => Some(out_vals(c.into_inner().into_vec(), &[])),
        (Node::OwnOwned(c), Dtor::IntoIter) => Some(leaf_vals((*c).into_iter().collect(), &[])),
        (Node::OwnOwned(mut c), Dtor::GetMut) => Some(mut_vals(c.get_mut(), &[])),
        (Node::OwnOwned(mut c), Dtor::ChildMut) => Some(mut_vals(LockableGetMut::get_mut(c.child_mut()), &[])),
        (Node::POwnBoxed(p), Dtor::IntoChild) => {
            let mut l = Vec::new();
            let c = open(p.into_child(), &mut l);
            Some(leaf_vals(c.into_child().into_vec(), &l))
        }
        (Node::POwnBoxed(p), Dtor::IntoInner) => {
            let mut l = Vec::new();
            let c = open(p.into_inner(), &mut l);
            Some(out_vals(c.into_vec(), &l))
        }
        (Node::POwnRetry(p), Dtor::IntoChild) => {
            let mut l = Vec::new();
            let c = open(p.into_child(), &mut l);
            Some(leaf_vals(c.into_child().into_vec(), &l))
        }
        (Node::POwnRetry(p), Dtor::IntoInner) => {
            let mut l = Vec::new();
            let c = open(p.into_inner(), &mut l);
            Some(out_vals(c.into_vec(), &l))
        }
        (Node::POwnRetry(mut p), Dtor::GetMut) => {
            let mut l = Vec::new();
            let c = open(p.get_mut(), &mut l);
            Some(mut_vals(c, &l))
        }
        (Node::POwnRetry(mut p), Dtor::ChildMut) => {
            let mut l = Vec::new();
            let c = open(p.child_mut(), &mut l);
            Some(mut_vals(c.get_mut(), &l))
        }
        (Node::POwnOwned(p), Dtor::IntoChild) => {
            let mut l = Vec::new();
            let c = open(p.into_child(), &mut l);
            Some(leaf_vals(c.into_child().into_vec(), &l))
        }
        (Node::POwnOwned(p), Dtor::IntoInner) => {
            let mut l = Vec::new();
            let c = open(p.into_inner(), &mut l);
            Some(out_vals(c.into_vec(), &l))
        }
        (Node::POwnOwned(mut p), Dtor::GetMut) => {
            let mut l = Vec::new();
            let c = open(p.get_mut(), &mut l);
            Some(mut_vals(c, &l))
        }
        (Node::POwnOwned(mut p), Dtor::ChildMut) => {
            let mut l = Vec::new();
            let c = open(p.child_mut(), &mut l);
            Some(mut_vals(c.get_mut(), &l))
        }
        (n, _) => {
            drop(n);
            None
        }
    }
}

/// try-acquire a leaf through its own API and release it again; Ok(key) = acquired
fn probe_try(leaf: &Leaf, key: ThreadKey) -> Result<ThreadKey, ThreadKey> {
    fn go<T: TargetApi>(t: &T, key: ThreadKey) -> Result<ThreadKey, ThreadKey> {
        match t.try_lock(key) {
            Ok(g) => Ok(T::unlock(g)),
            Err(k) => Err(k),
        }
    }
    match leaf {
        Leaf::M(x) => go(x, key),
        Leaf::R(x) => go(x, key),
        Leaf::PM(x) => go(x, key),
        Leaf::PR(x) => go(x, key),
        Leaf::PPM(x) => go(x, key),
        Leaf::PPR(x) => go(x, key),
        Leaf::ZM(x) => go(&x.1, key),
        Leaf::ZR(x) => go(&x.1, key),
    }
}

fn probe_try_read(leaf: &Leaf, key: ThreadKey) -> Result<ThreadKey, ThreadKey> {
    fn go<T: TargetApi>(t: &T, key: ThreadKey) -> Result<ThreadKey, ThreadKey> {
        match t.try_read(key) {
            Ok(g) => Ok(T::unlock_read(g)),
            Err(k) => Err(k),
        }
    }
    match leaf {
        Leaf::R(x) => go(x, key),
        Leaf::PR(x) => go(x, key),
        Leaf::PPR(x) => go(x, key),
        Leaf::ZR(x) => go(&x.1, key),
        _ => Err(key),
    }
}

fn probe_read(leaf: &Leaf, key: ThreadKey) -> ThreadKey {
    fn go<T: TargetApi>(t: &T, key: ThreadKey) -> ThreadKey {
        T::unlock_read(t.read(key))
    }
    match leaf {
        Leaf::R(x) => go(x, key),
        Leaf::PR(x) => go(x, key),
        Leaf::PPR(x) => go(x, key),
        Leaf::ZR(x) => go(&x.1, key),
        _ => key,
    }
}

fn probe_lock(leaf: &Leaf, key: ThreadKey) -> ThreadKey {
    fn go<T: TargetApi>(t: &T, key: ThreadKey) -> ThreadKey {
        T::unlock(t.lock(key))
    }
    match leaf {
        Leaf::M(x) => go(x, key),
        Leaf::R(x) => go(x, key),
        Leaf::PM(x) => go(x, key),
        Leaf::PR(x) => go(x, key),
        Leaf::PPM(x) => go(x, key),
        Leaf::PPR(x) => go(x, key),
        Leaf::ZM(x) => go(&x.1, key),
        Leaf::ZR(x) => go(&x.1, key),
    }
}

pub struct RunResult {
    pub out: RunOutcome,
    pub probes: Probes,
}

/// C07 with locks much smaller than a machine word, stored back to back: duplicate detection
/// must tell neighbours apart whatever their size and alignment. No thread is involved; the
/// verdict of every checked constructor is compared with "some index is listed twice".
/// C07 for a lock stored inside the data of another lock: (outer, inner) names two distinct
/// locks - no duplicate - although the inner one lies within the outer one's memory
fn nested_lock_duplicate_check(sched: &Sched) {
    use happylock::collection::{BoxedLockCollection, RefLockCollection, RetryingLockCollection};
    type InnerM = happylock::mutex::Mutex<u8, crate::raw::SimRawMutex>;
    #[repr(C)]
    struct Account {
        id: u64,
        balance: InnerM,
    }
    type Outer = happylock::rwlock::RwLock<Account, crate::raw::SimRawRwLock>;
    let outer = Outer::new(Account { id: 1, balance: InnerM::new(0) });
    let key = match ThreadKey::get() {
        Some(k) => k,
        None => return,
    };
    let (verdicts, _) = crate::raw::recording(|| {
        let g = outer.read(key);
        let inner: &InnerM = &g.balance;
        let _ = g.id;
        let v = vec![
            ("BoxedLockCollection", BoxedLockCollection::try_new((&outer, inner)).is_some()),
            ("RetryingLockCollection", RetryingLockCollection::try_new((&outer, inner)).is_some()),
            ("RefLockCollection", RefLockCollection::try_new(&(&outer, inner)).is_some()),
        ];
        drop(g);
        v
    });
    let mut g = sched.lock();
    for (what, accepted) in verdicts {
        g.stats.dup_checks += 1;
        if !accepted {
            let d = format!("{}::try_new rejected (outer lock, lock stored inside the outer lock's data): two distinct locks, no duplicate", what);
            g.event(Clause::DupVerdict, 0, d);
        }
    }
}

fn tiny_duplicate_checks(sched: &Sched, seed: u64) {
    use happylock::collection::{BoxedLockCollection, RefLockCollection, RetryingLockCollection};
    type TinyM = happylock::mutex::Mutex<u8, crate::raw::SimRawMutex>;
    type TinyR = happylock::rwlock::RwLock<u8, crate::raw::SimRawRwLock>;
    let mut rng = crate::rng::Rng::new(seed ^ 0x71A7);
    let ms: Box<[TinyM; 8]> = Box::new(std::array::from_fn(|i| TinyM::new(i as u8)));
    let rs: Box<[TinyR; 8]> = Box::new(std::array::from_fn(|i| TinyR::new(i as u8)));
    for _ in 0..3 {
        let len = rng.range(0, 6);
        let dup_wanted = rng.chance(1, 3);
        let mut idx: Vec<usize> = Vec::new();
        let mut pool: Vec<usize> = (0..8).collect();
        rng.shuffle(&mut pool);
        while idx.len() < len {
            if dup_wanted && !idx.is_empty() && rng.chance(1, 3) {
                let d = *rng.pick(&idx);
                idx.push(d);
            } else {
                idx.push(pool.pop().unwrap());
            }
        }
        let mut sorted = idx.clone();
        sorted.sort();
        let dup = sorted.windows(2).any(|w| w[0] == w[1]);
        let mut verdicts: Vec<(&str, bool)> = Vec::new();
        if rng.chance(1, 2) {
            let v: Vec<&TinyM> = idx.iter().map(|i| &ms[*i]).collect();
            verdicts.push(("RefLockCollection over sub-word Mutexes", RefLockCollection::try_new(&v).is_some()));
            verdicts.push(("RetryingLockCollection over sub-word Mutexes", RetryingLockCollection::try_new(v.clone()).is_some()));
            verdicts.push(("BoxedLockCollection over sub-word Mutexes", BoxedLockCollection::try_new(v).is_some()));
        } else {
            let v: Vec<&TinyR> = idx.iter().map(|i| &rs[*i]).collect();
            verdicts.push(("RefLockCollection over sub-word RwLocks", RefLockCollection::try_new(&v).is_some()));
            verdicts.push(("RetryingLockCollection over sub-word RwLocks", RetryingLockCollection::try_new(v.clone()).is_some()));
            verdicts.push(("BoxedLockCollection over sub-word RwLocks", BoxedLockCollection::try_new(v).is_some()));
        }
        let mut g = sched.lock();
        for (what, accepted) in verdicts {
            g.stats.dup_checks += 1;
            if dup {
                g.stats.dup_pos += 1;
            }
            if accepted == dup {
                let d = format!("{}: try_new {} the index list {:?} (locks of {} bytes, stored back to back), which {} a duplicate", what, if accepted { "accepted" } else { "rejected" }, idx, std::mem::size_of::<TinyM>(), if dup { "contains" } else { "does not contain" });
                g.event(Clause::DupVerdict, 0, d);
            }
        }
    }
}

/// C08 for locks smaller than a machine word, stored back to back (several of them start in
/// the same word): two sorting collections over the same locks in different arrangements must
/// acquire them in the same order. The locks are not part of the simulated world; their raw
/// operations are recorded on this thread instead.
fn tiny_order_checks(sched: &Sched, seed: u64) {
    use happylock::collection::{BoxedLockCollection, RefLockCollection};
    type TinyM = happylock::mutex::Mutex<u8, crate::raw::SimRawMutex>;
    type TinyR = happylock::rwlock::RwLock<u8, crate::raw::SimRawRwLock>;
    let mut rng = crate::rng::Rng::new(seed ^ 0x0DE2);
    let ms: Box<[TinyM; 8]> = Box::new(std::array::from_fn(|i| TinyM::new(i as u8)));
    let rs: Box<[TinyR; 8]> = Box::new(std::array::from_fn(|i| TinyR::new(i as u8)));
    let mut key = match ThreadKey::get() {
        Some(k) => k,
        None => return,
    };
    for _ in 0..2 {
        let k = rng.range(2, 6);
        let mut a1: Vec<usize> = (0..8).collect();
        rng.shuffle(&mut a1);
        a1.truncate(k);
        let mut a2 = a1.clone();
        rng.shuffle(&mut a2);
        let use_m = rng.chance(1, 2);
        let boxed1 = rng.chance(1, 2);
        let boxed2 = rng.chance(1, 2);
        let mut seqs: Vec<Vec<usize>> = Vec::new();
        for (arr, boxed) in [(&a1, boxed1), (&a2, boxed2)] {
            let (k2, seq) = crate::raw::recording(|| {
                macro_rules! go {
                    ($locks:expr) => {{
                        let v: Vec<_> = arr.iter().map(|i| &$locks[*i]).collect();
                        if boxed {
                            match BoxedLockCollection::try_new(v) {
                                Some(c) => {
                                    // dropping the guard releases the locks and then the key
                                    drop(c.lock(key));
                                    ThreadKey::get().expect("happysim: key after drop")
                                }
                                None => key,
                            }
                        } else {
                            match RefLockCollection::try_new(&v) {
                                Some(c) => {
                                    drop(c.lock(key));
                                    ThreadKey::get().expect("happysim: key after drop")
                                }
                                None => key,
                            }
                        }
                    }};
                }
                if use_m {
                    go!(ms)
                } else {
                    go!(rs)
                }
            });
            key = k2;
            let base = if use_m { ms.as_ptr() as usize } else { rs.as_ptr() as usize };
            let sz = if use_m { std::mem::size_of::<TinyM>() } else { std::mem::size_of::<TinyR>() };
            seqs.push(seq.iter().filter(|(_, op)| matches!(op, crate::sched::RawOp::Lock | crate::sched::RawOp::LockExcl | crate::sched::RawOp::LockShared)).map(|(a, _)| (a - base) / sz).collect());
        }
        let mut g = sched.lock();
        g.stats.order_checks_tiny += 1;
        if seqs[0] != seqs[1] {
            let d = format!(
                "two sorting collections ({} and {}) over the same sub-word {} (size {} bytes, stored back to back), listed as {:?} and {:?}, acquire them in different orders: {:?} vs {:?}",
                if boxed1 { "boxed" } else { "ref" },
                if boxed2 { "boxed" } else { "ref" },
                if use_m { "Mutexes" } else { "RwLocks" },
                if use_m { std::mem::size_of::<TinyM>() } else { std::mem::size_of::<TinyR>() },
                a1,
                a2,
                seqs[0],
                seqs[1]
            );
            g.event(Clause::OrderConflict, 0, d);
        }
    }
    drop(key);
}

/// C17 for locks whose payload is zero-sized (and a few others): formatting them with `{:?}` /
/// `{:#?}`, directly or through wrappers and collections, must leave the raw locks as it found
/// them. The locks are not part of the simulated world: their raw operations are recorded on
/// this thread (every try succeeds), and the recorded sequence must be balanced - no release
/// without a matching acquisition before it, nothing left acquired.
fn zst_debug_checks(sched: &Sched, seed: u64) {
    use happylock::collection::{BoxedLockCollection, OwnedLockCollection, RetryingLockCollection};
    use happylock::poisonable::Poisonable;
    use crate::sched::RawOp;
    type ZM = happylock::mutex::Mutex<(), crate::raw::SimRawMutex>;
    type ZR = happylock::rwlock::RwLock<(), crate::raw::SimRawRwLock>;
    type EM = happylock::mutex::Mutex<[u64; 0], crate::raw::SimRawMutex>;
    type UM = happylock::mutex::Mutex<u8, crate::raw::SimRawMutex>;
    let mut rng = crate::rng::Rng::new(seed ^ 0x257D);
    let pretty = rng.chance(1, 2);
    let which = rng.below(7);
    let (what, seq): (&str, Vec<(usize, RawOp)>) = {
        let fmt = |d: &dyn std::fmt::Debug| if pretty { format!("{:#?}", d) } else { format!("{:?}", d) };
        match which {
            0 => {
                let m = ZM::new(());
                ("Mutex<()>", crate::raw::recording(|| fmt(&m)).1)
            }
            1 => {
                let m = ZR::new(());
                ("RwLock<()>", crate::raw::recording(|| fmt(&m)).1)
            }
            2 => {
                let m = EM::new([]);
                ("Mutex<[u64; 0]>", crate::raw::recording(|| fmt(&m)).1)
            }
            3 => {
                let m = Poisonable::new(ZM::new(()));
                ("Poisonable<Mutex<()>>", crate::raw::recording(|| fmt(&m)).1)
            }
            4 => {
                let c = OwnedLockCollection::new((ZM::new(()), ZR::new(()), UM::new(3)));
                ("OwnedLockCollection<(Mutex<()>, RwLock<()>, Mutex<u8>)>", crate::raw::recording(|| fmt(&c)).1)
            }
            5 => {
                let c = RetryingLockCollection::new(vec![ZM::new(()), ZM::new(())]);
                ("RetryingLockCollection<Vec<Mutex<()>>>", crate::raw::recording(|| fmt(&c)).1)
            }
            _ => {
                let c = BoxedLockCollection::new([ZR::new(()), ZR::new(())]);
                ("BoxedLockCollection<[RwLock<()>; 2]>", crate::raw::recording(|| fmt(&c)).1)
            }
        }
    };
    // balance per raw lock address: exclusive count / shared count
    let mut held: std::collections::BTreeMap<usize, (i32, i32)> = std::collections::BTreeMap::new();
    let mut bad: Option<String> = None;
    for (a, op) in &seq {
        let e = held.entry(*a).or_default();
        match op {
            RawOp::Lock | RawOp::TryLock | RawOp::LockExcl | RawOp::TryLockExcl => e.0 += 1,
            RawOp::LockShared | RawOp::TryLockShared => e.1 += 1,
            RawOp::Unlock | RawOp::UnlockExcl => e.0 -= 1,
            RawOp::UnlockShared => e.1 -= 1,
        }
        if (e.0 < 0 || e.1 < 0) && bad.is_none() {
            bad = Some(format!("{:?} released a raw lock it had not acquired", op));
        }
    }
    if bad.is_none() && held.values().any(|e| *e != (0, 0)) {
        bad = Some("a raw lock was left acquired".to_string());
    }
    let mut g = sched.lock();
    g.stats.zst_debug_checks += 1;
    if let Some(b) = bad {
        let d = format!("Debug-formatting a free {} ({}): {}; recorded raw operations: {:?}", what, if pretty { "{:#?}" } else { "{:?}" }, b, seq.iter().map(|(_, o)| *o).collect::<Vec<_>>());
        g.event(Clause::NonAcqStateChanged, 0, d);
    }
}

/// C04 for collections made by `Default`: a default collection whose default child contains
/// locks must take every one of them when it is locked (recorded raw operations).
fn default_collection_checks(sched: &Sched, seed: u64) {
    use happylock::collection::{BoxedLockCollection, OwnedLockCollection, RetryingLockCollection};
    use crate::sched::RawOp;
    type DM = happylock::mutex::Mutex<u8, crate::raw::SimRawMutex>;
    type DR = happylock::rwlock::RwLock<u8, crate::raw::SimRawRwLock>;
    let mut rng = crate::rng::Rng::new(seed ^ 0xDEFA);
    let key = match ThreadKey::get() {
        Some(k) => k,
        None => return,
    };
    macro_rules! go {
        ($what:expr, $c:expr, $n:expr) => {{
            let c = $c;
            let (_, seq) = crate::raw::recording(|| drop(c.lock(key)));
            let taken = seq.iter().filter(|(_, op)| matches!(op, RawOp::Lock | RawOp::LockExcl | RawOp::TryLock | RawOp::TryLockExcl)).map(|(a, _)| *a).collect::<std::collections::BTreeSet<usize>>().len();
            ($what, taken, $n)
        }};
    }
    let (what, taken, n): (&str, usize, usize) = match rng.below(6) {
        0 => go!("BoxedLockCollection::<(Mutex<u8>, RwLock<u8>)>::default()", BoxedLockCollection::<(DM, DR)>::default(), 2),
        1 => go!("BoxedLockCollection::<[Mutex<u8>; 3]>::default()", BoxedLockCollection::<[DM; 3]>::default(), 3),
        2 => go!("RetryingLockCollection::<(Mutex<u8>, RwLock<u8>)>::default()", RetryingLockCollection::<(DM, DR)>::default(), 2),
        3 => go!("OwnedLockCollection::<[RwLock<u8>; 2]>::default()", OwnedLockCollection::<[DR; 2]>::default(), 2),
        4 => go!("BoxedLockCollection::<Mutex<u8>>::default()", BoxedLockCollection::<DM>::default(), 1),
        _ => go!("BoxedLockCollection::<(BoxedLockCollection<[Mutex<u8>; 2]>, RwLock<u8>)>::default()", BoxedLockCollection::<(BoxedLockCollection<[DM; 2]>, DR)>::default(), 3),
    };
    let mut g = sched.lock();
    g.stats.default_checks += 1;
    if taken != n {
        let d = format!("{}.lock() acquired {} distinct raw locks, its guard gives access to {} locks", what, taken, n);
        g.event(Clause::HeldNeLeafset, 0, d);
    }
}

/// C16 for large values: containers whose `into_inner` / `into_child` / `get_mut` results are
/// several KiB (8 locks of 1 KiB each, and a 3 x 3 nest) - every value must come out once and be
/// dropped exactly once. No lock is operated (these paths consume the collection).
fn big_value_roundtrips(sched: &Sched, seed: u64) {
    use happylock::collection::{BoxedLockCollection, OwnedLockCollection, RetryingLockCollection};
    use happylock::lockable::LockableIntoInner;
    use std::sync::atomic::{AtomicU32, Ordering};
    use std::sync::Arc;
    struct Big {
        id: u32,
        _pad: [u8; 1020],
        drops: Arc<Vec<AtomicU32>>,
    }
    impl Drop for Big {
        fn drop(&mut self) {
            self.drops[self.id as usize].fetch_add(1, Ordering::Relaxed);
        }
    }
    type BM = happylock::mutex::Mutex<Big, crate::raw::SimRawMutex>;
    type BR = happylock::rwlock::RwLock<Big, crate::raw::SimRawRwLock>;
    let mut rng = crate::rng::Rng::new(seed ^ 0xB16B);
    let drops: Arc<Vec<AtomicU32>> = Arc::new((0..9).map(|_| AtomicU32::new(0)).collect());
    let mk = |i: usize| Big { id: i as u32, _pad: [0; 1020], drops: drops.clone() };
    let which = rng.below(6);
    let (what, ids): (&str, Vec<u32>) = match which {
        0 => {
            let c = BoxedLockCollection::new(std::array::from_fn::<BM, 8, _>(|i| BM::new(mk(i))));
            ("BoxedLockCollection<[Mutex<1 KiB>; 8]>::into_inner", c.into_inner().iter().map(|b| b.id).collect())
        }
        1 => {
            let c = RetryingLockCollection::new(std::array::from_fn::<BR, 8, _>(|i| BR::new(mk(i))));
            ("RetryingLockCollection<[RwLock<1 KiB>; 8]>::into_inner", c.into_inner().iter().map(|b| b.id).collect())
        }
        2 => {
            let c = OwnedLockCollection::new(std::array::from_fn::<BM, 8, _>(|i| BM::new(mk(i))));
            ("OwnedLockCollection<[Mutex<1 KiB>; 8]>::into_inner", c.into_inner().iter().map(|b| b.id).collect())
        }
        3 => {
            let a: [BM; 8] = std::array::from_fn(|i| BM::new(mk(i)));
            ("<[Mutex<1 KiB>; 8] as LockableIntoInner>::into_inner", LockableIntoInner::into_inner(a).iter().map(|b| b.id).collect())
        }
        4 => {
            let c = OwnedLockCollection::new(std::array::from_fn::<[BM; 3], 3, _>(|i| std::array::from_fn(|j| BM::new(mk(i * 3 + j)))));
            ("OwnedLockCollection<[[Mutex<1 KiB>; 3]; 3]>::into_inner", c.into_inner().iter().flatten().map(|b| b.id).collect())
        }
        _ => {
            let mut c = BoxedLockCollection::new((std::array::from_fn::<BM, 6, _>(|i| BM::new(mk(i))), BR::new(mk(6))));
            let c2 = c.into_child();
            c = BoxedLockCollection::new(c2);
            let (a, b) = c.into_inner();
            ("BoxedLockCollection<([Mutex<1 KiB>; 6], RwLock<1 KiB>)>::into_child / into_inner", a.iter().map(|b| b.id).chain([b.id]).collect())
        }
    };
    let n = ids.len();
    let mut g = sched.lock();
    g.stats.big_roundtrips += 1;
    if ids != (0..n as u32).collect::<Vec<u32>>() {
        let d = format!("{} returned the values {:?}, expected 0..{}", what, ids, n);
        g.event(Clause::RoundTrip, 0, d);
    }
    let counts: Vec<u32> = drops.iter().take(n).map(|c| c.load(Ordering::Relaxed)).collect();
    if counts.iter().any(|c| *c != 1) {
        let d = format!("{}: after the result was dropped the values' drop counts are {:?}, expected 1 each", what, counts);
        g.event(Clause::DropCount, 0, d);
    }
}

/// Execute one scenario from start to finish in this process.
pub fn run_scenario(scn: &Scenario) -> RunResult {
    let nthreads = scn.program.threads.len();
    let nl = scn.world.leaves.len();
    let sched = Sched::new(scn.cfg.clone(), nthreads, nl, scn.world.gates);
    sched::install(&sched);
    sched.lock().tag_drops = vec![0; scn.world.tags];
    sched.lock().tag_made = vec![0; scn.world.tags];
    sched.lock().tag_panicky = scn.world.panicky_tags.clone();
    if scn.profile == "C07" {
        tiny_duplicate_checks(&sched, scn.cfg.sched_seed);
        if scn.cfg.sched_seed % 8 == 3 {
            nested_lock_duplicate_check(&sched);
        }
    }
    if scn.profile == "C08" {
        tiny_order_checks(&sched, scn.cfg.sched_seed);
    }
    if scn.profile == "C04" && scn.cfg.sched_seed % 8 == 5 {
        default_collection_checks(&sched, scn.cfg.sched_seed);
    }
    if scn.profile == "C17" && scn.cfg.sched_seed % 8 == 0 {
        zst_debug_checks(&sched, scn.cfg.sched_seed);
    }
    if scn.profile == "C16" && scn.cfg.sched_seed % 8 == 0 {
        big_value_roundtrips(&sched, scn.cfg.sched_seed);
    }
    let world = World::new(&scn.world, &sched);
    if !world.address_ranks_ok() {
        sched.lock().event(Clause::Harness, 0, "arena addresses are not ascending".into());
    }
    let flats: Vec<Vec<FlatLeaf>> = (0..scn.world.targets.len()).map(|i| scn.world.flatten(&scn.world.targets[i], Some(i))).collect();
    let runner = Runner {
        scn,
        sched: &sched,
        world: &world,
        model: Mutex::new(Model { poison: BTreeMap::new(), in_flight: vec![Vec::new(); nthreads], order: Default::default() }),
        probes: Mutex::new(Probes::default()),
        flats,
        mailbox: Mutex::new(Vec::new()),
        lent: Mutex::new(Vec::new()),
        sent_guards: Mutex::new(Vec::new()),
    };
    std::thread::scope(|sc| {
        for tid in 0..nthreads {
            let r = &runner;
            std::thread::Builder::new()
                .stack_size(512 * 1024)
                .spawn_scoped(sc, move || {
                    r.sched.thread_start(tid);
                    let res = catch_unwind(AssertUnwindSafe(|| {
                        let mut th = Th {
                            st: St { r, tid, step: 0, opseq: 0, snap: Vec::new(), private_poison: BTreeMap::new(), in_unwind: false, panic_thrown: false, stolen: Vec::new() },
                            kh: KeyHolder { key: None, alive: false, leaked: false, extra: Vec::new() },
                            cell: KeyProbeCell { extra: RefCell::new(Vec::new()) },
                        };
                        th.run(&r.scn.program.threads[tid]);
                    }));
                    if let Err(p) = res {
                        r.sched.lock().event(Clause::Harness, tid, format!("interpreter thread panicked: {}", panic_message(&*p)));
                    }
                    r.sched.thread_end(tid);
                })
                .expect("spawn");
        }
        sched.run_all();
    });
    // end of run: every lock must be free again (unless guards were leaked on purpose or
    // raw faults left holds behind that nobody can release)
    {
        let mut g = sched.lock();
        fn forgets(s: &Step) -> bool {
            match s {
                Step::Acquire(a) => a.release == Release::Forget,
                Step::InUnwind(inner) => forgets(inner),
                _ => false,
            }
        }
        let forget = scn.program.threads.iter().flatten().any(forgets);
        if !g.abort && !forget {
            let left: Vec<(usize, Option<usize>, Vec<usize>)> =
                g.locks.iter().enumerate().filter(|(_, l)| !l.faulted && (l.excl.is_some() || !l.shared.is_empty())).map(|(i, l)| (i, l.excl, l.shared.clone())).collect();
            if !left.is_empty() {
                let d = format!("all threads finished and dropped their guards, but locks are still held: {:?} (lock, excl, shared)", left);
                g.event(Clause::HeldAtEnd, 0, d);
            }
        }
    }
    let probes = runner.probes.lock().unwrap().clone();
    // guards that were sent away and never dropped stay leaked (only a broken tree sends any)
    for (_, g) in runner.sent_guards.lock().unwrap().drain(..) {
        std::mem::forget(g);
    }
    drop(runner);
    world.teardown();
    {
        let mut g = sched.lock();
        let bad: Vec<(usize, u32)> = g.drops.iter().copied().enumerate().filter(|(_, d)| *d != 1).collect();
        if !bad.is_empty() && !g.abort {
            let d = format!("payload drop counts after teardown (lock, drops) != 1: {:?}", bad);
            g.event(Clause::DropCount, 0, d);
        }
        let bad_tags: Vec<(usize, u32, u32)> = (0..g.tag_drops.len()).filter(|&i| g.tag_drops[i] != g.tag_made[i]).map(|i| (i, g.tag_made[i], g.tag_drops[i])).collect();
        if !bad_tags.is_empty() && !g.abort {
            let d = format!("members handed to constructors were not dropped exactly once: (tag, constructed, dropped) {:?}", bad_tags);
            g.event(Clause::DropCount, 0, d);
        }
    }
    sched::uninstall();
    RunResult { out: sched.outcome(), probes }
}
