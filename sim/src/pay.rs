//! Payload stored in every leaf lock: ownership check at every access, a scheduling point
//! between the two halves of every access, shadow value per lock, drop counting.

use crate::sched::{self, Clause, Lid};

pub struct Pay {
    pub lid: u32,
    pub a: u64,
    pub b: u64,
}

thread_local! {
    /// how the payload's Debug impl behaves on this thread: 0 normal, 1 returns Err, 2 panics
    pub static PAY_DEBUG_MODE: std::cell::Cell<u8> = const { std::cell::Cell::new(0) };
    /// the access in progress goes through a data reference that escaped from a scoped closure
    pub static ESCAPED_USE: std::cell::Cell<bool> = const { std::cell::Cell::new(false) };
    /// which call the escaped reference came from (for the event text)
    pub static ESCAPED_RECEIVER: std::cell::RefCell<String> = const { std::cell::RefCell::new(String::new()) };
}

fn no_hold_clause() -> Clause {
    if ESCAPED_USE.with(|e| e.get()) {
        Clause::EscapedAccess
    } else {
        Clause::AccessWithoutHold
    }
}

impl std::fmt::Debug for Pay {
    fn fmt(&self, f: &mut std::fmt::Formatter<'_>) -> std::fmt::Result {
        match PAY_DEBUG_MODE.with(|m| m.get()) {
            1 => Err(std::fmt::Error),
            2 => std::panic::resume_unwind(Box::new(crate::interp::Injected)),
            _ => {
                // whoever formats the payload reads it: the formatting thread must hold the lock
                // (the library's Debug impls take the lock with a try and keep it while they print)
                if let (Some(s), Some(me)) = (sched::cur(), sched::my_tid()) {
                    let mut g = s.lock();
                    let lid = self.lid as usize;
                    if g.monitors_on && lid < g.locks.len() && g.holds(me, lid).is_none() {
                        let d = format!("payload of lock {} formatted (Debug) while the formatting thread does not hold the lock (excl={:?} shared={:?})", lid, g.locks[lid].excl, g.locks[lid].shared);
                        g.event(Clause::AccessWithoutHold, me, d);
                    }
                }
                write!(f, "Pay({},{})", self.lid, self.a)
            }
        }
    }
}

impl Pay {
    pub fn new(lid: Lid, v: u64) -> Pay {
        Pay { lid: lid as u32, a: v, b: v }
    }

    /// write under an exclusive hold
    pub fn write(&mut self, v: u64) {
        let lid = self.lid as usize;
        let s = sched::cur().expect("Pay::write with no world");
        let me = sched::my_tid().expect("Pay::write outside simulated thread");
        {
            let mut g = s.lock();
            if g.monitors_on {
                match g.holds(me, lid) {
                    Some(false) => {}
                    Some(true) => g.event(Clause::WriteUnderShared, me, format!("write to payload of lock {} while holding it only shared", lid)),
                    None => {
                        let mut d = format!("write to payload of lock {} while not holding it (excl={:?} shared={:?})", lid, g.locks[lid].excl, g.locks[lid].shared);
                        if ESCAPED_USE.with(|e| e.get()) {
                            d = format!("{} through the data reference that the closure of {} handed back to its caller", d, ESCAPED_RECEIVER.with(|r| r.borrow().clone()));
                        }
                        g.event(no_hold_clause(), me, d)
                    }
                }
            }
        }
        self.a = v;
        s.yield_point();
        self.b = v;
        let mut g = s.lock();
        if g.monitors_on {
            g.shadow[lid] = v;
        }
    }

    /// read under any hold; returns the value
    pub fn read(&self) -> u64 {
        let lid = self.lid as usize;
        let s = sched::cur().expect("Pay::read with no world");
        let me = sched::my_tid().expect("Pay::read outside simulated thread");
        {
            let mut g = s.lock();
            if g.monitors_on && g.holds(me, lid).is_none() {
                let mut d = format!("read of payload of lock {} while not holding it (excl={:?} shared={:?})", lid, g.locks[lid].excl, g.locks[lid].shared);
                if ESCAPED_USE.with(|e| e.get()) {
                    d = format!("{} through the data reference that the closure of {} handed back to its caller", d, ESCAPED_RECEIVER.with(|r| r.borrow().clone()));
                }
                g.event(no_hold_clause(), me, d);
            }
        }
        let a = unsafe { std::ptr::read_volatile(&self.a) };
        s.yield_point();
        let b = unsafe { std::ptr::read_volatile(&self.b) };
        let mut g = s.lock();
        if g.monitors_on {
            if a != b {
                g.event(Clause::Torn, me, format!("torn read of lock {}: a={} b={}", lid, a, b));
            } else if g.shadow[lid] != a {
                let sh = g.shadow[lid];
                g.event(Clause::StaleValue, me, format!("read of lock {} returned {} but the latest exclusive section left {}", lid, a, sh));
            }
        }
        a
    }

    /// sequential (no-hold) accessors used by get_mut / into_inner paths
    pub fn peek(&self) -> u64 {
        self.a
    }
    pub fn poke(&mut self, v: u64) {
        self.a = v;
        self.b = v;
        if let Some(s) = sched::cur() {
            let mut g = s.lock();
            let lid = self.lid as usize;
            if lid < g.shadow.len() {
                g.shadow[lid] = v;
            }
        }
    }
}

impl Drop for Pay {
    fn drop(&mut self) {
        if let Some(s) = sched::cur() {
            let mut g = s.lock();
            let lid = self.lid as usize;
            if lid < g.drops.len() {
                g.drops[lid] += 1;
            }
        }
    }
}
