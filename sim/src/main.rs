#![allow(dead_code)]
mod api;
mod gen;
mod interp;
mod minimize;
mod oracle;
mod pay;
mod raw;
mod rng;
mod sched;
mod shape;
mod spec;
mod typeprobe;
mod caps;
mod world;

use serde::{Deserialize, Serialize};
use spec::Scenario;
use std::collections::{BTreeMap, HashSet};

#[derive(Serialize, Deserialize, Default)]
struct BatchOut {
    prop: String,
    seed: u64,
    start: u64,
    count: u64,
    runs: u64,
    steps: u64,
    raw_ops: u64,
    /// distinct (scenario, event sequence) among non-trivial runs
    distinct_nontrivial: u64,
    nontrivial: u64,
    fingerprints: Vec<u64>,
    events_by_clause: BTreeMap<String, u64>,
    other_property_events: BTreeMap<String, u64>,
    violations: Vec<Viol>,
    harness_errors: Vec<String>,
    stats: BTreeMap<String, u64>,
    probes: BTreeMap<String, u64>,
    coverage: BTreeMap<String, u64>,
    samples: Vec<serde_json::Value>,
    determinism_rechecked: u64,
    determinism_mismatch: u64,
    pilots: u64,
    minimise_candidates: u64,
    foreign_profile_bases: u64,
}

#[derive(Serialize, Deserialize, Clone)]
struct Viol {
    property: String,
    clause: String,
    run_seed: u64,
    index: u64,
    detail: String,
    replay: String,
}

#[derive(Serialize, Deserialize)]
struct ReplayFile {
    property: String,
    clause: String,
    detail: String,
    verif_seed: u64,
    run_index: u64,
    run_seed: u64,
    minimised: bool,
    fingerprint: u64,
    scenario: Scenario,
}

fn tag_of(prop: &str) -> u64 {
    prop.bytes().fold(0u64, |h, b| h.wrapping_mul(131).wrapping_add(b as u64))
}

fn add_json_counts(dst: &mut BTreeMap<String, u64>, v: &serde_json::Value) {
    if let Some(o) = v.as_object() {
        for (k, x) in o {
            if let Some(n) = x.as_u64() {
                *dst.entry(k.clone()).or_insert(0) += n;
            }
        }
    }
}

fn nontrivial(prop: &str, r: &interp::RunResult) -> bool {
    let st = &r.out.stats;
    match prop {
        "C01" | "C02" | "C05" => st.blocked_picks > 0,
        "C09" => st.try_fail > 0,
        "C10" | "C11" => r.probes.user_panics > 0,
        "C12" => st.oneshot_fired + st.evil_fired > 0,
        _ => st.raw_ops > 0,
    }
}

fn coverage_keys(scn: &Scenario, cov: &mut BTreeMap<String, u64>) {
    use spec::*;
    for th in &scn.program.threads {
        for st in th {
            if let Step::Acquire(a) = st {
                let t = &scn.world.targets[a.target];
                let kind = match scn.world.resolve(t).0 {
                    TSpec::Leaf(l) => format!("single-{:?}", scn.world.leaves[*l]),
                    TSpec::Unit(_) => "owned".to_string(),
                    TSpec::Coll { kind, poison, .. } => format!("{}{:?}", if *poison { "poisonable-" } else { "" }, kind),
                    TSpec::Shared(_) => "shared".to_string(),
                    TSpec::Own { kind, poison, .. } => format!("{}own-{:?}", if *poison { "poisonable-" } else { "" }, kind),
                    TSpec::Tagged(..) => "tagged".to_string(),
                    TSpec::Group { .. } => "group".to_string(),
                    TSpec::MutRefs { kind, .. } => format!("mutrefs-{:?}", kind),
                    TSpec::Exposed { .. } => "exposed-owned-members".to_string(),
                    TSpec::Slice { kind, boxed, poison, array, .. } => format!("{}slice-{}-{:?}", if *poison { "poisonable-" } else { "" }, if *array { "array" } else if *boxed { "box" } else { "vec" }, kind),
                    TSpec::OnData { kind, poison, from, unchecked, .. } => format!("{}{}-{:?}", if *poison { "poisonable-" } else { "" }, if *unchecked { "new_unchecked" } else if *from { "from" } else if *kind == CollKind::Ref { "new" } else { "new_ref" }, kind),
                };
                *cov.entry(format!("{}/{:?}", kind, a.api)).or_insert(0) += 1;
                *cov.entry(format!("depth{}", scn.world.depth(t))).or_insert(0) += 1;
                *cov.entry(format!("size{}", scn.world.flatten(t, None).len())).or_insert(0) += 1;
            }
        }
    }
    *cov.entry(format!("threads{}", scn.program.threads.len())).or_insert(0) += 1;
    *cov.entry(format!("policy-{}", match scn.cfg.policy { sched::Policy::ReaderPref => "reader", sched::Policy::WriterPref => "writer", sched::Policy::Mixed(_) => "mixed" })).or_insert(0) += 1;
    *cov.entry(format!("strategy-{}", match scn.cfg.strategy { sched::Strategy::Random => "random".to_string(), sched::Strategy::Sticky(p) => format!("sticky{}", p), sched::Strategy::Pct(_, _) => "pct".to_string(), sched::Strategy::RunToBlock => "rtb".to_string() })).or_insert(0) += 1;
}

fn run_batch(prop: &str, seed: u64, start: u64, count: u64, replay_dir: &str, progress: Option<&str>, max_viol: usize, dump: Option<&str>) -> BatchOut {
    let mut out = BatchOut { prop: prop.to_string(), seed, start, count, ..Default::default() };
    let mut fps: HashSet<u64> = HashSet::new();
    let mut dumpf = dump.map(|p| std::io::BufWriter::new(std::fs::File::create(p).expect("dump file")));
    if prop == "C07" && start == 0 {
        for (ty, got, exp, detail) in typeprobe::all_verdicts() {
            *out.coverage.entry("static_ownedlockable_verdicts".into()).or_insert(0) += 1;
            if got != exp && exp {
                // an owning type that is not accepted is a usability matter, not what C07 forbids
                *out.coverage.entry("static_owning_type_not_accepted".into()).or_insert(0) += 1;
                continue;
            }
            if got != exp {
                let path = format!("{}/C07-static-{}.replay.json", replay_dir, ty.bytes().fold(0u64, |h, b| h.wrapping_mul(131).wrapping_add(b as u64)));
                let _ = std::fs::create_dir_all(replay_dir);
                std::fs::write(&path, serde_json::json!({"static_probe": true, "property": "C07", "type": ty, "got": got, "expected": exp, "detail": detail}).to_string()).expect("write replay");
                out.violations.push(Viol { property: "C07".into(), clause: "StaticOwnedLockable".into(), run_seed: 0, index: 0, detail, replay: path });
            }
        }
    }
    let mut pf = progress.map(|p| std::fs::OpenOptions::new().create(true).write(true).truncate(true).open(p).expect("progress file"));
    for idx in start..start + count {
        let run_seed = rng::derive(seed, tag_of(prop), idx);
        if let Some(f) = pf.as_mut() {
            use std::os::unix::fs::FileExt;
            let line = format!("{:>20} {:>20}\n", idx, run_seed);
            let _ = f.write_at(line.as_bytes(), 0);
        }
        // every sixth run index borrows the scenario generator of another property (cycling through
        // all of them) and is still judged for this property: monitors are on in every run, and
        // shapes, fault kinds and histories that only another profile produces count as well
        const ALL_PROFILES: [&str; 15] = ["C01", "C02", "C03", "C04", "C05", "C06", "C07", "C08", "C09", "C10", "C11", "C12", "C13", "C16", "C17"];
        let gen_prop: &str = if idx % 6 == 5 {
            let others: Vec<&str> = ALL_PROFILES.iter().copied().filter(|p| *p != prop).collect();
            others[((idx / 6) as usize) % others.len()]
        } else {
            prop
        };
        let foreign = gen_prop != prop;
        if foreign {
            out.foreign_profile_bases += 1;
        }
        let base = gen::generate(gen_prop, run_seed);
        // fault enumeration: positions are swept inside each sampled scenario
        let mut variants: Vec<Scenario> = match gen_prop {
            "C12" => {
                let pilot = interp::run_scenario(&base);
                out.pilots += 1;
                let mut v = gen::c12_variants(&base, &pilot.out.api_log, run_seed);
                if let Some(ev) = pilot.out.events.first() {
                    // the fault-free pilot itself must be clean; judge it like any run
                    let _ = ev;
                    v.insert(0, base.clone());
                }
                v
            }
            "C11" => {
                let mut v = gen::c11_variants(&base, run_seed);
                v.push(base.clone());
                v
            }
            // a quarter of the C10 scenarios are also run with a raw fault in a multi-member release
            "C10" if idx % 4 == 1 => {
                let pilot = interp::run_scenario(&base);
                out.pilots += 1;
                let mut v = gen::c10_release_fault_variants(&base, &pilot.out.api_log, run_seed);
                v.insert(0, base.clone());
                v
            }
            _ => vec![base],
        };
        if foreign {
            variants.truncate(4);
        }
        for (vi, scn) in variants.into_iter().enumerate() {
            let (fp, steps) = process_run(prop, seed, idx, vi as u64, run_seed, &scn, &mut out, &mut fps, replay_dir, max_viol);
            if let Some(f) = dumpf.as_mut() {
                use std::io::Write;
                let _ = writeln!(f, "{} {} {:016x} {}", idx, vi, fp, steps);
            }
        }
    }
    out.distinct_nontrivial = fps.len() as u64;
    out.fingerprints = fps.into_iter().collect();
    out
}


#[allow(clippy::too_many_arguments)]
fn process_run(prop: &str, seed: u64, idx: u64, variant: u64, run_seed: u64, scn: &Scenario, out: &mut BatchOut, fps: &mut HashSet<u64>, replay_dir: &str, max_viol: usize) -> (u64, u64) {
    let scn = scn.clone();
        let r = interp::run_scenario(&scn);
        out.runs += 1;
        out.steps += r.out.stats.steps;
        out.raw_ops += r.out.stats.raw_ops;
        add_json_counts(&mut out.stats, &serde_json::to_value(&r.out.stats).unwrap());
        add_json_counts(&mut out.probes, &serde_json::to_value(&r.probes).unwrap());
        coverage_keys(&scn, &mut out.coverage);
        if nontrivial(prop, &r) {
            out.nontrivial += 1;
            let h = rng::fnv(rng::fnv(r.out.fp, run_seed), variant);
            fps.insert(h);
        }
        // determinism self-check on a sample of our own runs
        if (idx + variant) % 97 == 0 {
            let r2 = interp::run_scenario(&scn);
            out.determinism_rechecked += 1;
            if r2.out.fp != r.out.fp || r2.out.trace != r.out.trace {
                out.determinism_mismatch += 1;
                out.harness_errors.push(format!("run {} (seed {}) is not deterministic: fp {:x} vs {:x}", idx, run_seed, r.out.fp, r2.out.fp));
            }
        }
        if out.samples.len() < 3 && nontrivial(prop, &r) {
            out.samples.push(serde_json::json!({
                "run_index": idx, "run_seed": run_seed, "variant": variant, "faults": scn.cfg.faults,
                "world": scn.world, "program": scn.program,
                "policy": scn.cfg.policy, "strategy": scn.cfg.strategy,
                "schedule_len": r.out.trace.len(),
                "schedule_prefix": r.out.trace.iter().take(60).map(|(t, _)| *t).collect::<Vec<u8>>(),
            }));
        }
        // the run's verdict is its first event; events that follow it in the same execution are
        // real consequences (every release is applied, so a wrong one has its real effect) and are
        // reported for the property they belong to as well - except under raw-lock faults, where
        // the harness cleans up after the first event and only that one is judged
        let first = r.out.events.first();
        let mine = if std::env::var("HAPPYSIM_ANY").is_ok() {
            first
        } else if scn.cfg.faults.raw_faults() {
            first.filter(|e| oracle::properties_of(e, &scn).contains(&prop))
        } else {
            r.out.events.iter().find(|e| oracle::properties_of(e, &scn).contains(&prop))
        };
        if let Some(ev) = first {
            let p = oracle::property_of(ev.clause, &scn);
            *out.events_by_clause.entry(format!("{:?}", ev.clause)).or_insert(0) += 1;
            if p == "HARNESS" {
                if out.harness_errors.len() < 10 {
                    out.harness_errors.push(format!("run {} seed {}: {}", idx, run_seed, ev.detail));
                }
            } else if !oracle::properties_of(ev, &scn).contains(&prop) {
                *out.other_property_events.entry(format!("{}:{:?}", p, ev.clause)).or_insert(0) += 1;
            }
        }
        if let Some(ev) = mine {
            // events of the recorded finding "data escapes a scoped closure" are capped on their own,
            // so that they can never use up the room for other violations
            let esc = ev.clause == sched::Clause::EscapedAccess;
            let room = if esc { out.violations.iter().filter(|v| v.clause == "EscapedAccess").count() < 2 } else { out.violations.iter().filter(|v| v.clause != "EscapedAccess").count() < max_viol };
            if first.map(|f| oracle::property_of(f.clause, &scn) != "HARNESS").unwrap_or(true) && room {
                let mut scn2 = scn.clone();
                scn2.cfg.replay = Some(r.out.trace.clone());
                let path = format!("{}/{}-{}-{}.replay.json", replay_dir, prop, run_seed, variant);
                let secondary = first.map(|f| f.step != ev.step || f.clause != ev.clause).unwrap_or(false);
                let detail = if secondary {
                    format!("{} [follows an earlier event of this run: {:?}: {}]", ev.detail, first.unwrap().clause, first.unwrap().detail)
                } else {
                    ev.detail.clone()
                };
                let clause = format!("{:?}", ev.clause);
                let _ = std::fs::create_dir_all(replay_dir);
                let write = |p: &str, s: &Scenario, minimised: bool, d: &str, fp: u64| {
                    let rf = ReplayFile { property: prop.to_string(), clause: clause.clone(), detail: d.to_string(), verif_seed: seed, run_index: idx, run_seed, minimised, fingerprint: fp, scenario: s.clone() };
                    std::fs::write(p, serde_json::to_string_pretty(&rf).unwrap()).expect("write replay");
                };
                // minimise; keep the unminimised file next to it. If the minimised scenario does
                // not reproduce on a re-run, report the original (deterministic by construction).
                let m = minimize::minimize(&scn2, prop, &clause, 400);
                out.minimise_candidates += m.candidates_tried as u64;
                let check = interp::run_scenario(&m.scenario);
                let still = check.out.events.iter().find(|e| oracle::properties_of(e, &m.scenario).contains(&prop) && format!("{:?}", e.clause) == clause);
                match still {
                    Some(e2) => {
                        write(&format!("{}.orig", path), &scn2, false, &detail, r.out.fp);
                        write(&path, &m.scenario, true, &e2.detail, check.out.fp);
                    }
                    None => write(&path, &scn2, false, &detail, r.out.fp),
                }
                out.violations.push(Viol { property: prop.to_string(), clause: format!("{:?}", ev.clause), run_seed, index: idx, detail, replay: path });
            }
        }
    (r.out.fp, r.out.stats.steps)
}

thread_local! {
    /// source location of the last panic on this thread (set by the panic hook): tells a panic
    /// inside the library from a panic inside the harness
    pub static LAST_PANIC_LOC: std::cell::RefCell<String> = const { std::cell::RefCell::new(String::new()) };
}

fn main() {
    std::panic::set_hook(Box::new(|info| {
        let loc = info.location().map(|l| l.file().to_string()).unwrap_or_default();
        LAST_PANIC_LOC.with(|l| *l.borrow_mut() = loc);
    }));
    let args: Vec<String> = std::env::args().collect();
    let get = |k: &str| -> Option<String> { args.iter().position(|a| a == k).and_then(|i| args.get(i + 1).cloned()) };
    match args.get(1).map(|s| s.as_str()) {
        Some("batch") => {
            if get("--tier").as_deref() == Some("thorough") {
                gen::THOROUGH.store(true, std::sync::atomic::Ordering::Relaxed);
            }
            let prop = get("--prop").expect("--prop");
            let seed: u64 = get("--seed").map(|s| s.parse().unwrap()).unwrap_or(20260927);
            let start: u64 = get("--start").map(|s| s.parse().unwrap()).unwrap_or(0);
            let count: u64 = get("--count").map(|s| s.parse().unwrap()).unwrap_or(1000);
            let dir = get("--replay-dir").unwrap_or_else(|| "replays".into());
            let max_viol: usize = get("--max-viol").map(|s| s.parse().unwrap()).unwrap_or(3);
            let out = run_batch(&prop, seed, start, count, &dir, get("--progress").as_deref(), max_viol, get("--dump").as_deref());
            let s = serde_json::to_string(&out).unwrap();
            match get("--out") {
                Some(p) => std::fs::write(p, s).unwrap(),
                None => println!("{}", s),
            }
        }
        Some("variants") => {
            // debugging aid: write the fault variants of one base scenario as replay files
            let prop = get("--prop").expect("--prop");
            let seed: u64 = get("--seed").map(|s| s.parse().unwrap()).unwrap_or(20260927);
            let idx: u64 = get("--index").map(|s| s.parse().unwrap()).unwrap_or(0);
            let dir = get("--out").unwrap_or_else(|| "/tmp".into());
            let run_seed = rng::derive(seed, tag_of(&prop), idx);
            let base = gen::generate(&prop, run_seed);
            let pilot = interp::run_scenario(&base);
            let vs = match prop.as_str() {
                "C12" => gen::c12_variants(&base, &pilot.out.api_log, run_seed),
                "C10" => gen::c10_release_fault_variants(&base, &pilot.out.api_log, run_seed),
                _ => gen::c11_variants(&base, run_seed),
            };
            for (i, v) in vs.iter().enumerate() {
                let rf = ReplayFile { property: prop.clone(), clause: "?".into(), detail: String::new(), verif_seed: seed, run_index: idx, run_seed, minimised: false, fingerprint: 0, scenario: v.clone() };
                let p = format!("{}/variant-{}-{}-{}.replay.json", dir, prop, idx, i);
                std::fs::write(&p, serde_json::to_string_pretty(&rf).unwrap()).unwrap();
                println!("{} {:?}", p, v.cfg.faults);
            }
        }
        Some("static") => {
            for (what, got, exp, _) in typeprobe::all_verdicts() {
                println!("{} {:5} (expected {:5}) {}", if got == exp { "  " } else { "!!" }, got, exp, what);
            }
        }
        Some("replay") => {
            let path = args.get(2).expect("replay file");
            let raw: serde_json::Value = serde_json::from_str(&std::fs::read_to_string(path).expect("read replay")).expect("parse replay");
            if raw.get("static_probe").is_some() {
                let ty = raw["type"].as_str().unwrap_or("");
                for (t, got, exp, detail) in typeprobe::all_verdicts() {
                    if t == ty && got != exp {
                        println!("static probe: {}", detail);
                        println!("VIOLATION property=C07 replay={}", path);
                        std::process::exit(1);
                    }
                }
                println!("static probe verdict for `{}` is as expected", ty);
                std::process::exit(0);
            }
            let rf: ReplayFile = serde_json::from_str(&std::fs::read_to_string(path).expect("read replay")).expect("parse replay");
            let mut scn = rf.scenario.clone();
            scn.cfg.record_log = true;
            let r = interp::run_scenario(&scn);
            if args.iter().any(|a| a == "--log") {
                let names = ["Lock", "TryLock", "Unlock", "LockShared", "TryLockShared", "UnlockShared", "LockExcl", "TryLockExcl", "UnlockExcl"];
                for (i, w) in r.out.log.iter().enumerate() {
                    let (t, code, lid, res) = (w >> 24, (w >> 16) & 0xff, (w >> 8) & 0xff, w & 0xff);
                    let name = match code { c if (c as usize) < names.len() => names[c as usize].to_string(), 20 => "yield".into(), 21 => "gate".into(), 22 => "start".into(), 23 => "end".into(), c => format!("op{}", c) };
                    println!("  {:4} T{} {:<14} lock {} ok={} panic={}", i, t, name, lid, res & 1, (res >> 1) & 1);
                }
                for e in &r.out.events {
                    println!("  event step {} T{} {:?}: {}", e.step, e.tid, e.clause, e.detail);
                }
            }
            let want = r.out.events.iter().find(|e| oracle::properties_of(e, &scn).contains(&rf.property.as_str()) && format!("{:?}", e.clause) == rf.clause);
            match want.or(r.out.events.first()) {
                Some(ev) => {
                    let ps = oracle::properties_of(ev, &rf.scenario);
                    println!("replayed: properties={:?} clause={:?} step={} thread={} detail={}", ps, ev.clause, ev.step, ev.tid, ev.detail);
                    if ps.contains(&rf.property.as_str()) && format!("{:?}", ev.clause) == rf.clause {
                        println!("VIOLATION property={} replay={}", rf.property, path);
                        std::process::exit(1);
                    }
                    println!("replay diverged: expected {} {}", rf.property, rf.clause);
                    std::process::exit(2);
                }
                None => {
                    println!("replay produced no violation (expected {} {})", rf.property, rf.clause);
                    std::process::exit(0);
                }
            }
        }
        Some("show") => {
            let prop = get("--prop").expect("--prop");
            let seed: u64 = get("--seed").map(|s| s.parse().unwrap()).unwrap_or(20260927);
            let idx: u64 = get("--index").map(|s| s.parse().unwrap()).unwrap_or(0);
            let run_seed = rng::derive(seed, tag_of(&prop), idx);
            let mut scn = gen::generate(&prop, run_seed);
            scn.cfg.record_log = true;
            println!("{}", serde_json::to_string_pretty(&scn).unwrap());
            let r = interp::run_scenario(&scn);
            println!("events: {:?}", r.out.events);
            println!("stats: {:?}", r.out.stats);
            println!("probes: {:?}", r.probes);
            println!("trace: {:?}", r.out.trace.iter().map(|t| t.0).collect::<Vec<_>>());
        }
        _ => {
            eprintln!("usage: happysim batch|replay|show ...");
            std::process::exit(2);
        }
    }
}
