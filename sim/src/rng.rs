//! Own PRNG (no dependency): splitmix64 for seeding, xorshift64* for the stream.

#[derive(Clone, Debug)]
pub struct Rng(u64);

pub fn splitmix(mut x: u64) -> u64 {
    x = x.wrapping_add(0x9E37_79B9_7F4A_7C15);
    let mut z = x;
    z = (z ^ (z >> 30)).wrapping_mul(0xBF58_476D_1CE4_E5B9);
    z = (z ^ (z >> 27)).wrapping_mul(0x94D0_49BB_1331_11EB);
    z ^ (z >> 31)
}

/// Derive a per-run seed from (VERIF_SEED, property tag, run index).
pub fn derive(seed: u64, tag: u64, idx: u64) -> u64 {
    splitmix(splitmix(splitmix(seed) ^ tag.wrapping_mul(0xA24B_AED4_963E_E407)) ^ idx.wrapping_mul(0x9FB2_1C65_1E98_DF25))
}

impl Rng {
    pub fn new(seed: u64) -> Self {
        let s = splitmix(seed);
        Rng(if s == 0 { 0x1234_5678_9ABC_DEF1 } else { s })
    }
    pub fn next(&mut self) -> u64 {
        let mut x = self.0;
        x ^= x >> 12;
        x ^= x << 25;
        x ^= x >> 27;
        self.0 = x;
        x.wrapping_mul(0x2545_F491_4F6C_DD1D)
    }
    /// uniform in 0..n (n > 0)
    pub fn below(&mut self, n: usize) -> usize {
        debug_assert!(n > 0);
        ((self.next() >> 11) % (n as u64)) as usize
    }
    /// inclusive range
    pub fn range(&mut self, lo: usize, hi: usize) -> usize {
        lo + self.below(hi - lo + 1)
    }
    pub fn chance(&mut self, num: u32, den: u32) -> bool {
        (self.below(den as usize) as u32) < num
    }
    pub fn pick<'a, T>(&mut self, xs: &'a [T]) -> &'a T {
        &xs[self.below(xs.len())]
    }
    pub fn shuffle<T>(&mut self, xs: &mut [T]) {
        for i in (1..xs.len()).rev() {
            let j = self.below(i + 1);
            xs.swap(i, j);
        }
    }
    pub fn fork(&mut self) -> Rng {
        Rng::new(self.next())
    }
}

pub fn fnv(h: u64, x: u64) -> u64 {
    let mut h = h;
    for i in 0..8 {
        h ^= (x >> (i * 8)) & 0xff;
        h = h.wrapping_mul(0x0000_0100_0000_01B3);
    }
    h
}
pub const FNV0: u64 = 0xcbf2_9ce4_8422_2325;
