//! Harness enums that make happylock's statically typed collections dynamically shaped.
//!
//! `Leaf`, `Cont<T>` and `Node` implement happylock's public `Lockable` / `Sharable` /
//! `OwnedLockable` by *pure delegation* to the library impl of the active variant (one line
//! per method and variant). Everything that decides a property — sorting, duplicate check,
//! acquisition, rollback, guards, poisoning, unwinding — is the library's code.
//!
//! `Sharable` is implemented for `Leaf` although the `Mutex` variants cannot be read-locked:
//! those arms are unreachable, and the interpreter asserts (harness error) that read APIs
//! are only ever invoked on targets whose leaves are all `RwLock`s.

use crate::pay::Pay;
use crate::raw::{SimRawMutex, SimRawRwLock};
use happylock::collection::{BoxedLockCollection, OwnedLockCollection, RefLockCollection, RetryingLockCollection};
use happylock::lockable::{Lockable, LockableGetMut, LockableIntoInner, OwnedLockable, RawLock, Sharable};
use happylock::mutex::MutexRef;
use happylock::poisonable::{PoisonRef, PoisonResult, Poisonable};
use happylock::rwlock::{RwLockReadRef, RwLockWriteRef};
use serde::{Deserialize, Serialize};
use std::mem::ManuallyDrop;

pub type M = happylock::mutex::Mutex<Pay, SimRawMutex>;
pub type R = happylock::rwlock::RwLock<Pay, SimRawRwLock>;

#[derive(Clone, Copy, PartialEq, Eq, Debug, Serialize, Deserialize, Hash, PartialOrd, Ord)]
pub enum LeafKind {
    M,
    R,
    PM,
    PR,
    PPM,
    PPR,
    /// a Mutex / RwLock preceded, inside one tuple value, by an *empty* owned collection: the
    /// zero-sized collection shares its address with the lock. Collection member only.
    ZM,
    ZR,
}

impl LeafKind {
    pub const ALL: [LeafKind; 6] = [LeafKind::M, LeafKind::R, LeafKind::PM, LeafKind::PR, LeafKind::PPM, LeafKind::PPR];
    pub fn is_rw(self) -> bool {
        matches!(self, LeafKind::R | LeafKind::PR | LeafKind::PPR | LeafKind::ZR)
    }
    /// can the leaf be locked on its own (through its own API)?
    pub fn standalone(self) -> bool {
        !matches!(self, LeafKind::ZM | LeafKind::ZR)
    }
    /// number of Poisonable layers
    pub fn layers(self) -> usize {
        match self {
            LeafKind::M | LeafKind::R => 0,
            LeafKind::PM | LeafKind::PR => 1,
            LeafKind::PPM | LeafKind::PPR => 2,
            LeafKind::ZM | LeafKind::ZR => 0,
        }
    }
}

#[derive(Debug)]
pub enum Leaf {
    M(M),
    R(R),
    PM(Poisonable<M>),
    PR(Poisonable<R>),
    PPM(Poisonable<Poisonable<M>>),
    PPR(Poisonable<Poisonable<R>>),
    ZM(ZP<M>),
    ZR(ZP<R>),
}

/// (empty owned collection, lock): the library's tuple impl locks both
pub type ZP<X> = (OwnedLockCollection<[X; 0]>, X);

impl Leaf {
    pub fn new(kind: LeafKind, pay: Pay) -> Leaf {
        match kind {
            LeafKind::M => Leaf::M(M::new(pay)),
            LeafKind::R => Leaf::R(R::new(pay)),
            LeafKind::PM => Leaf::PM(Poisonable::new(M::new(pay))),
            LeafKind::PR => Leaf::PR(Poisonable::new(R::new(pay))),
            LeafKind::PPM => Leaf::PPM(Poisonable::new(Poisonable::new(M::new(pay)))),
            LeafKind::PPR => Leaf::PPR(Poisonable::new(Poisonable::new(R::new(pay)))),
            LeafKind::ZM => Leaf::ZM((OwnedLockCollection::new([]), M::new(pay))),
            LeafKind::ZR => Leaf::ZR((OwnedLockCollection::new([]), R::new(pay))),
        }
    }
    pub fn kind(&self) -> LeafKind {
        match self {
            Leaf::M(_) => LeafKind::M,
            Leaf::R(_) => LeafKind::R,
            Leaf::PM(_) => LeafKind::PM,
            Leaf::PR(_) => LeafKind::PR,
            Leaf::PPM(_) => LeafKind::PPM,
            Leaf::PPR(_) => LeafKind::PPR,
            Leaf::ZM(_) => LeafKind::ZM,
            Leaf::ZR(_) => LeafKind::ZR,
        }
    }
}

// ---------------------------------------------------------------------------------------
// access families: what the library hands out for a leaf in each of the four access styles

pub enum PayRef<'x> {
    Mut(&'x mut Pay),
    Shared(&'x Pay),
}

pub enum Never {}

/// a harness container of `X` as the library hands it out in access style `F`
pub type FCont<'g, F, X> = ContAcc<X, <F as Fam>::S<'g, X>>;

pub trait Fam: 'static {
    type M<'g>: 'g;
    type R<'g>: 'g;
    type P<'g, X: 'g>: 'g;
    /// the library's value for a `Vec` / boxed slice of members
    type S<'g, X: 'g>: std::ops::DerefMut<Target = [X]> + 'g;
    fn m_pay<'x, 'g: 'x>(m: &'x mut Self::M<'g>) -> PayRef<'x>;
    fn r_pay<'x, 'g: 'x>(r: &'x mut Self::R<'g>) -> PayRef<'x>;
    /// open one Poisonable layer: (is_err, inner)
    fn p_open<'x, 'g: 'x, X: 'g>(p: &'x mut Self::P<'g, X>) -> (bool, &'x mut X);
}

/// exclusive guards (`Lockable::Guard`)
pub struct WG;
/// shared guards (`Sharable::ReadGuard`)
pub struct RG;
/// exclusive data references handed to scoped closures (`Lockable::DataMut`)
pub struct DM;
/// shared data references handed to scoped closures (`Sharable::DataRef`)
pub struct DR;

impl Fam for WG {
    type M<'g> = MutexRef<'g, Pay, SimRawMutex>;
    type R<'g> = RwLockWriteRef<'g, Pay, SimRawRwLock>;
    type P<'g, X: 'g> = PoisonResult<PoisonRef<'g, X>>;
    type S<'g, X: 'g> = happylock::lockable::GuardSlice<X>;
    fn m_pay<'x, 'g: 'x>(m: &'x mut Self::M<'g>) -> PayRef<'x> {
        crate::maybe_lend!(m, MutexRef<'g, Pay, SimRawMutex>, 1u8);
        if crate::caps::reflecting() {
            #[allow(unused_imports)]
            use self::MutexAccessorFallback as _;
            crate::caps::REFLECTED.with(|r| r.set(<MutexRef<'g, Pay, SimRawMutex>>::mutex(&*m).lock_addr().map(|a| (a, false))));
        }
        PayRef::Mut(&mut **m)
    }
    fn r_pay<'x, 'g: 'x>(r: &'x mut Self::R<'g>) -> PayRef<'x> {
        crate::maybe_lend!(r, RwLockWriteRef<'g, Pay, SimRawRwLock>, 2u8);
        if crate::caps::reflecting() {
            #[allow(unused_imports)]
            use self::RwAccessorFallback as _;
            crate::caps::REFLECTED.with(|x| x.set(<RwLockWriteRef<'g, Pay, SimRawRwLock>>::rwlock(&*r).lock_addr().map(|a| (a, true))));
        }
        PayRef::Mut(&mut **r)
    }
    fn p_open<'x, 'g: 'x, X: 'g>(p: &'x mut Self::P<'g, X>) -> (bool, &'x mut X) {
        match p {
            Ok(r) => (false, &mut **r),
            Err(e) => (true, &mut **e.get_mut()),
        }
    }
}

impl Fam for RG {
    type M<'g> = Never;
    type R<'g> = RwLockReadRef<'g, Pay, SimRawRwLock>;
    type P<'g, X: 'g> = PoisonResult<PoisonRef<'g, X>>;
    type S<'g, X: 'g> = happylock::lockable::GuardSlice<X>;
    fn m_pay<'x, 'g: 'x>(m: &'x mut Self::M<'g>) -> PayRef<'x> {
        match *m {}
    }
    fn r_pay<'x, 'g: 'x>(r: &'x mut Self::R<'g>) -> PayRef<'x> {
        crate::maybe_lend!(r, RwLockReadRef<'g, Pay, SimRawRwLock>, 3u8);
        if crate::caps::reflecting() {
            #[allow(unused_imports)]
            use self::RwAccessorFallback as _;
            crate::caps::REFLECTED.with(|x| x.set(<RwLockReadRef<'g, Pay, SimRawRwLock>>::rwlock(&*r).lock_addr().map(|a| (a, true))));
        }
        crate::shared_leaf_access!(r, RwLockReadRef<'g, Pay, SimRawRwLock>)
    }
    fn p_open<'x, 'g: 'x, X: 'g>(p: &'x mut Self::P<'g, X>) -> (bool, &'x mut X) {
        match p {
            Ok(r) => (false, &mut **r),
            Err(e) => (true, &mut **e.get_mut()),
        }
    }
}

impl Fam for DM {
    type M<'g> = &'g mut Pay;
    type R<'g> = &'g mut Pay;
    type P<'g, X: 'g> = PoisonResult<X>;
    type S<'g, X: 'g> = Box<[X]>;
    fn m_pay<'x, 'g: 'x>(m: &'x mut Self::M<'g>) -> PayRef<'x> {
        PayRef::Mut(&mut **m)
    }
    fn r_pay<'x, 'g: 'x>(r: &'x mut Self::R<'g>) -> PayRef<'x> {
        PayRef::Mut(&mut **r)
    }
    fn p_open<'x, 'g: 'x, X: 'g>(p: &'x mut Self::P<'g, X>) -> (bool, &'x mut X) {
        match p {
            Ok(r) => (false, r),
            Err(e) => (true, e.get_mut()),
        }
    }
}

impl Fam for DR {
    type M<'g> = Never;
    type R<'g> = &'g Pay;
    type P<'g, X: 'g> = PoisonResult<X>;
    type S<'g, X: 'g> = Box<[X]>;
    fn m_pay<'x, 'g: 'x>(m: &'x mut Self::M<'g>) -> PayRef<'x> {
        match *m {}
    }
    fn r_pay<'x, 'g: 'x>(r: &'x mut Self::R<'g>) -> PayRef<'x> {
        PayRef::Shared(&**r)
    }
    fn p_open<'x, 'g: 'x, X: 'g>(p: &'x mut Self::P<'g, X>) -> (bool, &'x mut X) {
        match p {
            Ok(r) => (false, r),
            Err(e) => (true, e.get_mut()),
        }
    }
}

pub enum LeafAcc<'g, F: Fam> {
    M(F::M<'g>),
    R(F::R<'g>),
    PM(F::P<'g, F::M<'g>>),
    PR(F::P<'g, F::R<'g>>),
    PPM(F::P<'g, F::P<'g, F::M<'g>>>),
    PPR(F::P<'g, F::P<'g, F::R<'g>>>),
}

impl<'g, F: Fam> LeafAcc<'g, F> {
    /// reach the payload, recording Ok(false)/Err(true) of every Poisonable layer, outermost first
    pub fn open<'x>(&'x mut self, layers: &mut Vec<bool>) -> PayRef<'x> {
        match self {
            LeafAcc::M(m) => F::m_pay(m),
            LeafAcc::R(r) => F::r_pay(r),
            LeafAcc::PM(p) => {
                let (e, x) = F::p_open(p);
                layers.push(e);
                F::m_pay(x)
            }
            LeafAcc::PR(p) => {
                let (e, x) = F::p_open(p);
                layers.push(e);
                F::r_pay(x)
            }
            LeafAcc::PPM(p) => {
                let (e, x) = F::p_open(p);
                layers.push(e);
                let (e2, y) = F::p_open(x);
                layers.push(e2);
                F::m_pay(y)
            }
            LeafAcc::PPR(p) => {
                let (e, x) = F::p_open(p);
                layers.push(e);
                let (e2, y) = F::p_open(x);
                layers.push(e2);
                F::r_pay(y)
            }
        }
    }
}

unsafe impl Lockable for Leaf {
    type Guard<'g>
        = LeafAcc<'g, WG>
    where
        Self: 'g;
    type DataMut<'a>
        = LeafAcc<'a, DM>
    where
        Self: 'a;

    fn get_ptrs<'a>(&'a self, ptrs: &mut Vec<&'a dyn RawLock>) {
        match self {
            Leaf::M(l) => l.get_ptrs(ptrs),
            Leaf::R(l) => l.get_ptrs(ptrs),
            Leaf::PM(l) => l.get_ptrs(ptrs),
            Leaf::PR(l) => l.get_ptrs(ptrs),
            Leaf::PPM(l) => l.get_ptrs(ptrs),
            Leaf::PPR(l) => l.get_ptrs(ptrs),
            Leaf::ZM(l) => l.get_ptrs(ptrs),
            Leaf::ZR(l) => l.get_ptrs(ptrs),
        }
    }
    unsafe fn guard(&self) -> Self::Guard<'_> {
        match self {
            Leaf::M(l) => LeafAcc::M(l.guard()),
            Leaf::R(l) => LeafAcc::R(l.guard()),
            Leaf::PM(l) => LeafAcc::PM(l.guard()),
            Leaf::PR(l) => LeafAcc::PR(l.guard()),
            Leaf::PPM(l) => LeafAcc::PPM(l.guard()),
            Leaf::PPR(l) => LeafAcc::PPR(l.guard()),
            Leaf::ZM(l) => LeafAcc::M(l.guard().1),
            Leaf::ZR(l) => LeafAcc::R(l.guard().1),
        }
    }
    unsafe fn data_mut(&self) -> Self::DataMut<'_> {
        match self {
            Leaf::M(l) => LeafAcc::M(l.data_mut()),
            Leaf::R(l) => LeafAcc::R(l.data_mut()),
            Leaf::PM(l) => LeafAcc::PM(l.data_mut()),
            Leaf::PR(l) => LeafAcc::PR(l.data_mut()),
            Leaf::PPM(l) => LeafAcc::PPM(l.data_mut()),
            Leaf::PPR(l) => LeafAcc::PPR(l.data_mut()),
            Leaf::ZM(l) => LeafAcc::M(l.data_mut().1),
            Leaf::ZR(l) => LeafAcc::R(l.data_mut().1),
        }
    }
}

unsafe impl Sharable for Leaf {
    type ReadGuard<'g>
        = LeafAcc<'g, RG>
    where
        Self: 'g;
    type DataRef<'a>
        = LeafAcc<'a, DR>
    where
        Self: 'a;

    unsafe fn read_guard(&self) -> Self::ReadGuard<'_> {
        match self {
            Leaf::R(l) => LeafAcc::R(l.read_guard()),
            Leaf::PR(l) => LeafAcc::PR(l.read_guard()),
            Leaf::PPR(l) => LeafAcc::PPR(l.read_guard()),
            Leaf::ZR(l) => LeafAcc::R(l.read_guard().1),
            _ => unreachable!("happysim: read access generated for a Mutex leaf"),
        }
    }
    unsafe fn data_ref(&self) -> Self::DataRef<'_> {
        match self {
            Leaf::R(l) => LeafAcc::R(l.data_ref()),
            Leaf::PR(l) => LeafAcc::PR(l.data_ref()),
            Leaf::PPR(l) => LeafAcc::PPR(l.data_ref()),
            Leaf::ZR(l) => LeafAcc::R(l.data_ref().1),
            _ => unreachable!("happysim: read access generated for a Mutex leaf"),
        }
    }
}

// a Leaf owns its lock
unsafe impl OwnedLockable for Leaf {}

/// value extracted by into_inner / get_mut: (lid, value, poison layers outermost first)
#[derive(Debug, Clone, PartialEq, Eq)]
pub struct LeafVal {
    pub lid: u32,
    pub val: u64,
    pub layers: Vec<bool>,
}

fn pr<T>(r: PoisonResult<T>, layers: &mut Vec<bool>) -> T {
    match r {
        Ok(x) => {
            layers.push(false);
            x
        }
        Err(e) => {
            layers.push(true);
            e.into_inner()
        }
    }
}

/// wrapper so that the payload is dropped (and counted) when the value is dropped
#[derive(Debug)]
pub struct LeafOut {
    pub pay: Pay,
    pub layers: Vec<bool>,
}

impl LockableIntoInner for Leaf {
    type Inner = LeafOut;
    fn into_inner(self) -> LeafOut {
        let mut layers = Vec::new();
        let pay = match self {
            Leaf::M(l) => LockableIntoInner::into_inner(l),
            Leaf::R(l) => LockableIntoInner::into_inner(l),
            Leaf::PM(l) => pr(LockableIntoInner::into_inner(l), &mut layers),
            Leaf::PR(l) => pr(LockableIntoInner::into_inner(l), &mut layers),
            Leaf::PPM(l) => {
                let x = pr(LockableIntoInner::into_inner(l), &mut layers);
                pr(x, &mut layers)
            }
            Leaf::PPR(l) => {
                let x = pr(LockableIntoInner::into_inner(l), &mut layers);
                pr(x, &mut layers)
            }
            Leaf::ZM(l) => LockableIntoInner::into_inner(l).1,
            Leaf::ZR(l) => LockableIntoInner::into_inner(l).1,
        };
        LeafOut { pay, layers }
    }
}

pub struct LeafMut<'a> {
    pub pay: &'a mut Pay,
    pub layers: Vec<bool>,
}

impl LockableGetMut for Leaf {
    type Inner<'a>
        = LeafMut<'a>
    where
        Self: 'a;
    fn get_mut(&mut self) -> LeafMut<'_> {
        let mut layers = Vec::new();
        let pay = match self {
            Leaf::M(l) => LockableGetMut::get_mut(l),
            Leaf::R(l) => LockableGetMut::get_mut(l),
            Leaf::PM(l) => pr(LockableGetMut::get_mut(l), &mut layers),
            Leaf::PR(l) => pr(LockableGetMut::get_mut(l), &mut layers),
            Leaf::PPM(l) => {
                let x = pr(LockableGetMut::get_mut(l), &mut layers);
                pr(x, &mut layers)
            }
            Leaf::PPR(l) => {
                let x = pr(LockableGetMut::get_mut(l), &mut layers);
                pr(x, &mut layers)
            }
            Leaf::ZM(l) => LockableGetMut::get_mut(l).1,
            Leaf::ZR(l) => LockableGetMut::get_mut(l).1,
        };
        LeafMut { pay, layers }
    }
}

// ---------------------------------------------------------------------------------------
// containers

#[derive(Clone, Copy, PartialEq, Eq, Debug, Serialize, Deserialize, Hash, PartialOrd, Ord)]
pub enum ContKind {
    Vec,
    BoxSlice,
    Array,
    Tuple,
}

impl ContKind {
    pub const ALL: [ContKind; 4] = [ContKind::Vec, ContKind::BoxSlice, ContKind::Array, ContKind::Tuple];
    pub fn supports(self, n: usize) -> bool {
        match self {
            ContKind::Vec | ContKind::BoxSlice => true,
            ContKind::Array => n <= 6,
            ContKind::Tuple => (1..=7).contains(&n),
        }
    }
}

#[derive(Debug)]
pub enum Cont<T> {
    V(Vec<T>),
    B(Box<[T]>),
    A0([T; 0]),
    A1([T; 1]),
    A2([T; 2]),
    A3([T; 3]),
    A4([T; 4]),
    A5([T; 5]),
    A6([T; 6]),
    T1((T,)),
    T2((T, T)),
    T3((T, T, T)),
    T4((T, T, T, T)),
    T5((T, T, T, T, T)),
    T6((T, T, T, T, T, T)),
    T7((T, T, T, T, T, T, T)),
}

/// `S` is what the library hands out for a `Vec` / boxed slice of members in the access
/// style at hand
pub enum ContAcc<G, S = Box<[G]>> {
    V(S),
    B(S),
    A0([G; 0]),
    A1([G; 1]),
    A2([G; 2]),
    A3([G; 3]),
    A4([G; 4]),
    A5([G; 5]),
    A6([G; 6]),
    T1((G,)),
    T2((G, G)),
    T3((G, G, G)),
    T4((G, G, G, G)),
    T5((G, G, G, G, G)),
    T6((G, G, G, G, G, G)),
    T7((G, G, G, G, G, G, G)),
}

macro_rules! cont_each {
    ($s:expr, $c:ident => $e:expr) => {
        match $s {
            Cont::V($c) => $e,
            Cont::B($c) => $e,
            Cont::A0($c) => $e,
            Cont::A1($c) => $e,
            Cont::A2($c) => $e,
            Cont::A3($c) => $e,
            Cont::A4($c) => $e,
            Cont::A5($c) => $e,
            Cont::A6($c) => $e,
            Cont::T1($c) => $e,
            Cont::T2($c) => $e,
            Cont::T3($c) => $e,
            Cont::T4($c) => $e,
            Cont::T5($c) => $e,
            Cont::T6($c) => $e,
            Cont::T7($c) => $e,
        }
    };
}

macro_rules! cont_map {
    ($s:expr, $o:ident, $c:ident => $e:expr) => {
        match $s {
            Cont::V($c) => $o::V($e),
            Cont::B($c) => $o::B($e),
            Cont::A0($c) => $o::A0($e),
            Cont::A1($c) => $o::A1($e),
            Cont::A2($c) => $o::A2($e),
            Cont::A3($c) => $o::A3($e),
            Cont::A4($c) => $o::A4($e),
            Cont::A5($c) => $o::A5($e),
            Cont::A6($c) => $o::A6($e),
            Cont::T1($c) => $o::T1($e),
            Cont::T2($c) => $o::T2($e),
            Cont::T3($c) => $o::T3($e),
            Cont::T4($c) => $o::T4($e),
            Cont::T5($c) => $o::T5($e),
            Cont::T6($c) => $o::T6($e),
            Cont::T7($c) => $o::T7($e),
        }
    };
}

fn arr<T, const N: usize>(v: Vec<T>) -> [T; N] {
    match v.try_into() {
        Ok(a) => a,
        Err(_) => panic!("happysim: container length mismatch"),
    }
}

impl<T> Cont<T> {
    pub fn build(kind: ContKind, v: Vec<T>) -> Cont<T> {
        let n = v.len();
        assert!(kind.supports(n), "happysim: container {:?} cannot hold {} members", kind, n);
        match kind {
            ContKind::Vec => Cont::V(v),
            ContKind::BoxSlice => Cont::B(v.into_boxed_slice()),
            ContKind::Array => match n {
                0 => Cont::A0(arr(v)),
                1 => Cont::A1(arr(v)),
                2 => Cont::A2(arr(v)),
                3 => Cont::A3(arr(v)),
                4 => Cont::A4(arr(v)),
                5 => Cont::A5(arr(v)),
                _ => Cont::A6(arr(v)),
            },
            ContKind::Tuple => {
                let mut it = v.into_iter();
                let mut nx = || it.next().unwrap();
                match n {
                    1 => Cont::T1((nx(),)),
                    2 => Cont::T2((nx(), nx())),
                    3 => Cont::T3((nx(), nx(), nx())),
                    4 => Cont::T4((nx(), nx(), nx(), nx())),
                    5 => Cont::T5((nx(), nx(), nx(), nx(), nx())),
                    6 => Cont::T6((nx(), nx(), nx(), nx(), nx(), nx())),
                    _ => Cont::T7((nx(), nx(), nx(), nx(), nx(), nx(), nx())),
                }
            }
        }
    }

    pub fn members(&self) -> Vec<&T> {
        match self {
            Cont::V(c) => c.iter().collect(),
            Cont::B(c) => c.iter().collect(),
            Cont::A0(c) => c.iter().collect(),
            Cont::A1(c) => c.iter().collect(),
            Cont::A2(c) => c.iter().collect(),
            Cont::A3(c) => c.iter().collect(),
            Cont::A4(c) => c.iter().collect(),
            Cont::A5(c) => c.iter().collect(),
            Cont::A6(c) => c.iter().collect(),
            Cont::T1(c) => vec![&c.0],
            Cont::T2(c) => vec![&c.0, &c.1],
            Cont::T3(c) => vec![&c.0, &c.1, &c.2],
            Cont::T4(c) => vec![&c.0, &c.1, &c.2, &c.3],
            Cont::T5(c) => vec![&c.0, &c.1, &c.2, &c.3, &c.4],
            Cont::T6(c) => vec![&c.0, &c.1, &c.2, &c.3, &c.4, &c.5],
            Cont::T7(c) => vec![&c.0, &c.1, &c.2, &c.3, &c.4, &c.5, &c.6],
        }
    }

    pub fn len(&self) -> usize {
        self.members().len()
    }

    pub fn into_vec(self) -> Vec<T> {
        match self {
            Cont::V(c) => c,
            Cont::B(c) => c.into_vec(),
            Cont::A0(c) => c.into_iter().collect(),
            Cont::A1(c) => c.into_iter().collect(),
            Cont::A2(c) => c.into_iter().collect(),
            Cont::A3(c) => c.into_iter().collect(),
            Cont::A4(c) => c.into_iter().collect(),
            Cont::A5(c) => c.into_iter().collect(),
            Cont::A6(c) => c.into_iter().collect(),
            Cont::T1(c) => vec![c.0],
            Cont::T2(c) => vec![c.0, c.1],
            Cont::T3(c) => vec![c.0, c.1, c.2],
            Cont::T4(c) => vec![c.0, c.1, c.2, c.3],
            Cont::T5(c) => vec![c.0, c.1, c.2, c.3, c.4],
            Cont::T6(c) => vec![c.0, c.1, c.2, c.3, c.4, c.5],
            Cont::T7(c) => vec![c.0, c.1, c.2, c.3, c.4, c.5, c.6],
        }
    }
}

impl<G, S: std::ops::DerefMut<Target = [G]>> ContAcc<G, S> {
    pub fn get_mut(&mut self, i: usize) -> &mut G {
        match self {
            ContAcc::V(c) => &mut c[i],
            ContAcc::B(c) => &mut c[i],
            ContAcc::A0(c) => &mut c[i],
            ContAcc::A1(c) => &mut c[i],
            ContAcc::A2(c) => &mut c[i],
            ContAcc::A3(c) => &mut c[i],
            ContAcc::A4(c) => &mut c[i],
            ContAcc::A5(c) => &mut c[i],
            ContAcc::A6(c) => &mut c[i],
            ContAcc::T1(c) => match i {
                0 => &mut c.0,
                _ => panic!("happysim: tuple index"),
            },
            ContAcc::T2(c) => match i {
                0 => &mut c.0,
                1 => &mut c.1,
                _ => panic!("happysim: tuple index"),
            },
            ContAcc::T3(c) => match i {
                0 => &mut c.0,
                1 => &mut c.1,
                2 => &mut c.2,
                _ => panic!("happysim: tuple index"),
            },
            ContAcc::T4(c) => match i {
                0 => &mut c.0,
                1 => &mut c.1,
                2 => &mut c.2,
                3 => &mut c.3,
                _ => panic!("happysim: tuple index"),
            },
            ContAcc::T5(c) => match i {
                0 => &mut c.0,
                1 => &mut c.1,
                2 => &mut c.2,
                3 => &mut c.3,
                4 => &mut c.4,
                _ => panic!("happysim: tuple index"),
            },
            ContAcc::T6(c) => match i {
                0 => &mut c.0,
                1 => &mut c.1,
                2 => &mut c.2,
                3 => &mut c.3,
                4 => &mut c.4,
                5 => &mut c.5,
                _ => panic!("happysim: tuple index"),
            },
            ContAcc::T7(c) => match i {
                0 => &mut c.0,
                1 => &mut c.1,
                2 => &mut c.2,
                3 => &mut c.3,
                4 => &mut c.4,
                5 => &mut c.5,
                6 => &mut c.6,
                _ => panic!("happysim: tuple index"),
            },
        }
    }
}

impl<G> ContAcc<G> {
    pub fn into_vec(self) -> Vec<G> {
        match self {
            ContAcc::V(c) => c.into_vec(),
            ContAcc::B(c) => c.into_vec(),
            ContAcc::A0(c) => c.into_iter().collect(),
            ContAcc::A1(c) => c.into_iter().collect(),
            ContAcc::A2(c) => c.into_iter().collect(),
            ContAcc::A3(c) => c.into_iter().collect(),
            ContAcc::A4(c) => c.into_iter().collect(),
            ContAcc::A5(c) => c.into_iter().collect(),
            ContAcc::A6(c) => c.into_iter().collect(),
            ContAcc::T1(c) => vec![c.0],
            ContAcc::T2(c) => vec![c.0, c.1],
            ContAcc::T3(c) => vec![c.0, c.1, c.2],
            ContAcc::T4(c) => vec![c.0, c.1, c.2, c.3],
            ContAcc::T5(c) => vec![c.0, c.1, c.2, c.3, c.4],
            ContAcc::T6(c) => vec![c.0, c.1, c.2, c.3, c.4, c.5],
            ContAcc::T7(c) => vec![c.0, c.1, c.2, c.3, c.4, c.5, c.6],
        }
    }
}

unsafe impl<T: Lockable> Lockable for Cont<T> {
    type Guard<'g>
        = ContAcc<T::Guard<'g>, <Vec<T> as Lockable>::Guard<'g>>
    where
        Self: 'g;
    type DataMut<'a>
        = ContAcc<T::DataMut<'a>>
    where
        Self: 'a;

    fn get_ptrs<'a>(&'a self, ptrs: &mut Vec<&'a dyn RawLock>) {
        cont_each!(self, c => c.get_ptrs(ptrs))
    }
    unsafe fn guard(&self) -> Self::Guard<'_> {
        cont_map!(self, ContAcc, c => c.guard())
    }
    unsafe fn data_mut(&self) -> Self::DataMut<'_> {
        cont_map!(self, ContAcc, c => c.data_mut())
    }
}

unsafe impl<T: Sharable> Sharable for Cont<T> {
    type ReadGuard<'g>
        = ContAcc<T::ReadGuard<'g>, <Vec<T> as Sharable>::ReadGuard<'g>>
    where
        Self: 'g;
    type DataRef<'a>
        = ContAcc<T::DataRef<'a>>
    where
        Self: 'a;

    unsafe fn read_guard(&self) -> Self::ReadGuard<'_> {
        cont_map!(self, ContAcc, c => c.read_guard())
    }
    unsafe fn data_ref(&self) -> Self::DataRef<'_> {
        cont_map!(self, ContAcc, c => c.data_ref())
    }
}

unsafe impl<T: OwnedLockable> OwnedLockable for Cont<T> {}

impl<T: LockableIntoInner + 'static> LockableIntoInner for Cont<T> {
    type Inner = ContAcc<T::Inner>;
    fn into_inner(self) -> Self::Inner {
        cont_map!(self, ContAcc, c => LockableIntoInner::into_inner(c))
    }
}

impl<T: LockableGetMut + 'static> LockableGetMut for Cont<T> {
    type Inner<'a>
        = ContAcc<T::Inner<'a>>
    where
        Self: 'a;
    fn get_mut(&mut self) -> Self::Inner<'_> {
        cont_map!(self, ContAcc, c => LockableGetMut::get_mut(c))
    }
}

impl<T> Default for Cont<T> {
    fn default() -> Self {
        Cont::V(Vec::new())
    }
}

impl<T> Extend<T> for Cont<T> {
    fn extend<I: IntoIterator<Item = T>>(&mut self, iter: I) {
        match self {
            Cont::V(v) => v.extend(iter),
            _ => panic!("happysim: extend on a non-Vec container"),
        }
    }
}

impl<T> FromIterator<T> for Cont<T> {
    fn from_iter<I: IntoIterator<Item = T>>(iter: I) -> Self {
        Cont::V(iter.into_iter().collect())
    }
}

impl<T> IntoIterator for Cont<T> {
    type Item = T;
    type IntoIter = std::vec::IntoIter<T>;
    fn into_iter(self) -> Self::IntoIter {
        // Vec and boxed slices use the library-visible std iterators; others are collected
        self.into_vec().into_iter()
    }
}

impl<'a, T> IntoIterator for &'a Cont<T> {
    type Item = &'a T;
    type IntoIter = std::vec::IntoIter<&'a T>;
    fn into_iter(self) -> Self::IntoIter {
        self.members().into_iter()
    }
}

impl<T> AsMut<Cont<T>> for Cont<T> {
    fn as_mut(&mut self) -> &mut Cont<T> {
        self
    }
}

impl<'a, T> IntoIterator for &'a mut Cont<T> {
    type Item = &'a mut T;
    type IntoIter = std::vec::IntoIter<&'a mut T>;
    fn into_iter(self) -> Self::IntoIter {
        match self {
            Cont::V(c) => c.iter_mut().collect::<Vec<_>>().into_iter(),
            Cont::B(c) => c.iter_mut().collect::<Vec<_>>().into_iter(),
            Cont::A0(c) => c.iter_mut().collect::<Vec<_>>().into_iter(),
            Cont::A1(c) => c.iter_mut().collect::<Vec<_>>().into_iter(),
            Cont::A2(c) => c.iter_mut().collect::<Vec<_>>().into_iter(),
            Cont::A3(c) => c.iter_mut().collect::<Vec<_>>().into_iter(),
            Cont::A4(c) => c.iter_mut().collect::<Vec<_>>().into_iter(),
            Cont::A5(c) => c.iter_mut().collect::<Vec<_>>().into_iter(),
            Cont::A6(c) => c.iter_mut().collect::<Vec<_>>().into_iter(),
            Cont::T1(c) => vec![&mut c.0].into_iter(),
            Cont::T2(c) => vec![&mut c.0, &mut c.1].into_iter(),
            Cont::T3(c) => vec![&mut c.0, &mut c.1, &mut c.2].into_iter(),
            Cont::T4(c) => vec![&mut c.0, &mut c.1, &mut c.2, &mut c.3].into_iter(),
            Cont::T5(c) => vec![&mut c.0, &mut c.1, &mut c.2, &mut c.3, &mut c.4].into_iter(),
            Cont::T6(c) => vec![&mut c.0, &mut c.1, &mut c.2, &mut c.3, &mut c.4, &mut c.5].into_iter(),
            Cont::T7(c) => vec![&mut c.0, &mut c.1, &mut c.2, &mut c.3, &mut c.4, &mut c.5, &mut c.6].into_iter(),
        }
    }
}

impl<T> AsRef<Cont<T>> for Cont<T> {
    fn as_ref(&self) -> &Cont<T> {
        self
    }
}

// ---------------------------------------------------------------------------------------
// nodes

pub type CL = Cont<Leaf>;
pub type Unit = OwnedLockCollection<CL>;
pub type CN = Cont<Node>;
/// owned data over arena leaves: a container of `&mut` leaves
pub type CML = Cont<&'static mut Leaf>;
/// owned collection over `&mut` arena leaves
pub type RUnit = OwnedLockCollection<CML>;
/// a container of mutable borrows of *shared* lock references
pub type MR = Cont<&'static mut &'static Leaf>;
/// the library's own list types as children (their guards are the library's slice guards)
pub type SV = Vec<&'static Leaf>;
pub type SB = Box<[&'static Leaf]>;

/// collections over `SV` / `SB`; top-level targets only
#[derive(Debug)]
pub enum SNode {
    BoxedV(BoxedLockCollection<SV>),
    BoxedB(BoxedLockCollection<SB>),
    RetryV(Box<RetryingLockCollection<SV>>),
    RefB(RefHolder<SB>),
    PBoxedV(Box<Poisonable<BoxedLockCollection<SV>>>),
    PRetryB(Box<Poisonable<RetryingLockCollection<SB>>>),
    /// plain arrays as children (their guards are plain arrays of member guards)
    BoxedA2(BoxedLockCollection<[&'static Leaf; 2]>),
    RetryA3(Box<RetryingLockCollection<[&'static Leaf; 3]>>),
}

fn slice_member() -> ! {
    panic!("happysim: a slice target was generated as a member of another collection")
}

/// drop-counting tag (C16): counts how often the value it is attached to is dropped
#[derive(Debug)]
pub struct Tag(pub usize);
impl Drop for Tag {
    fn drop(&mut self) {
        let mut panicky = false;
        if let Some(s) = crate::sched::cur() {
            let mut g = s.lock();
            if self.0 < g.tag_drops.len() {
                g.tag_drops[self.0] += 1;
            }
            panicky = g.tag_panicky.contains(&self.0);
        }
        // a user value whose destructor panics (never a second panic on top of an unwind)
        if panicky && !std::thread::panicking() {
            std::panic::resume_unwind(Box::new(crate::interp::Injected));
        }
    }
}

/// a `RefLockCollection` together with the heap cell its `&'static` data points to
pub struct RefHolder<L: 'static> {
    coll: ManuallyDrop<RefLockCollection<'static, L>>,
    data: *mut L,
}

unsafe impl<L: Send + Sync> Send for RefHolder<L> {}
unsafe impl<L: Send + Sync> Sync for RefHolder<L> {}

impl<L: Lockable + 'static> RefHolder<L> {
    pub fn try_new(data: L) -> Option<RefHolder<L>> {
        let p = Box::into_raw(Box::new(data));
        let r: &'static L = unsafe { &*p };
        match RefLockCollection::try_new(r) {
            Some(c) => Some(RefHolder { coll: ManuallyDrop::new(c), data: p }),
            None => {
                drop(unsafe { Box::from_raw(p) });
                None
            }
        }
    }
    pub fn get(&self) -> &RefLockCollection<'static, L> {
        &self.coll
    }
}

impl<L: OwnedLockable + 'static> RefHolder<L> {
    pub fn new_owned(data: L) -> RefHolder<L> {
        let p = Box::into_raw(Box::new(data));
        let r: &'static L = unsafe { &*p };
        RefHolder { coll: ManuallyDrop::new(RefLockCollection::new(r)), data: p }
    }
}

impl<L> Drop for RefHolder<L> {
    fn drop(&mut self) {
        unsafe {
            ManuallyDrop::drop(&mut self.coll);
            drop(Box::from_raw(self.data));
        }
    }
}

impl<L: std::fmt::Debug> std::fmt::Debug for RefHolder<L> {
    fn fmt(&self, f: &mut std::fmt::Formatter<'_>) -> std::fmt::Result {
        std::fmt::Debug::fmt(&*self.coll, f)
    }
}

#[derive(Debug)]
pub enum Node {
    Leaf(&'static Leaf),
    Unit(&'static Unit),
    Boxed(BoxedLockCollection<CN>),
    Ref(RefHolder<CN>),
    Retry(Box<RetryingLockCollection<CN>>),
    PBoxed(Box<Poisonable<BoxedLockCollection<CN>>>),
    PRetry(Box<Poisonable<RetryingLockCollection<CN>>>),
    /// a reference to another node (exercises the library's `&T` impl)
    Shared(&'static Node),
    /// collections that own their leaves (C16 construction / destruction paths)
    OwnBoxed(BoxedLockCollection<CL>),
    OwnRetry(Box<RetryingLockCollection<CL>>),
    OwnRef(RefHolder<CL>),
    OwnOwned(Box<Unit>),
    POwnBoxed(Box<Poisonable<BoxedLockCollection<CL>>>),
    POwnRetry(Box<Poisonable<RetryingLockCollection<CL>>>),
    POwnOwned(Box<Poisonable<Unit>>),
    /// a member with a drop-counting tag attached
    Tagged(Box<Node>, Tag),
    /// collections built with `new` / `new_ref` / `From<&L>` over shared owned data
    DRef(RefLockCollection<'static, CML>),
    DBoxed(BoxedLockCollection<&'static CML>),
    DRetry(Box<RetryingLockCollection<&'static CML>>),
    PDBoxed(Box<Poisonable<BoxedLockCollection<&'static CML>>>),
    PDRetry(Box<Poisonable<RetryingLockCollection<&'static CML>>>),
    RUnit(&'static RUnit),
    /// a bare nested container (no collection around it)
    Group(Box<CN>),
    /// placeholder without locks (never locked, never built from a spec)
    Group0,
    /// collections over `&mut &Leaf` members
    MBoxed(BoxedLockCollection<MR>),
    MRetry(Box<RetryingLockCollection<MR>>),
    MOwned(Box<OwnedLockCollection<MR>>),
    MRef(RefHolder<MR>),
    /// collections over the library's `Vec` / boxed-slice impls (never members)
    Slice(SNode),
}

pub enum NodeAcc<'g, F: Fam> {
    Leaf(LeafAcc<'g, F>),
    Unit(FCont<'g, F, LeafAcc<'g, F>>),
    Coll(Box<FCont<'g, F, NodeAcc<'g, F>>>),
    PColl(Box<F::P<'g, FCont<'g, F, NodeAcc<'g, F>>>>),
    PUnit(Box<F::P<'g, FCont<'g, F, LeafAcc<'g, F>>>>),
}

unsafe impl Lockable for Node {
    type Guard<'g>
        = NodeAcc<'g, WG>
    where
        Self: 'g;
    type DataMut<'a>
        = NodeAcc<'a, DM>
    where
        Self: 'a;

    fn get_ptrs<'a>(&'a self, ptrs: &mut Vec<&'a dyn RawLock>) {
        match self {
            Node::Leaf(l) => l.get_ptrs(ptrs),
            Node::Unit(u) => u.get_ptrs(ptrs),
            Node::Boxed(c) => c.get_ptrs(ptrs),
            Node::Ref(c) => c.get().get_ptrs(ptrs),
            Node::Retry(c) => c.get_ptrs(ptrs),
            Node::PBoxed(c) => c.get_ptrs(ptrs),
            Node::PRetry(c) => c.get_ptrs(ptrs),
            Node::Shared(n) => n.get_ptrs(ptrs),
            Node::OwnBoxed(c) => c.get_ptrs(ptrs),
            Node::OwnRetry(c) => c.get_ptrs(ptrs),
            Node::OwnRef(c) => c.get().get_ptrs(ptrs),
            Node::OwnOwned(c) => c.get_ptrs(ptrs),
            Node::POwnBoxed(c) => c.get_ptrs(ptrs),
            Node::POwnRetry(c) => c.get_ptrs(ptrs),
            Node::POwnOwned(c) => c.get_ptrs(ptrs),
            Node::Tagged(n, _) => n.get_ptrs(ptrs),
            Node::DRef(c) => c.get_ptrs(ptrs),
            Node::DBoxed(c) => c.get_ptrs(ptrs),
            Node::DRetry(c) => c.get_ptrs(ptrs),
            Node::PDBoxed(c) => c.get_ptrs(ptrs),
            Node::PDRetry(c) => c.get_ptrs(ptrs),
            Node::RUnit(u) => u.get_ptrs(ptrs),
            Node::Group(c) => c.get_ptrs(ptrs),
            Node::Group0 => {}
            Node::MBoxed(c) => c.get_ptrs(ptrs),
            Node::MRetry(c) => c.get_ptrs(ptrs),
            Node::MOwned(c) => c.get_ptrs(ptrs),
            Node::MRef(c) => c.get().get_ptrs(ptrs),
            Node::Slice(_) => slice_member(),
        }
    }
    unsafe fn guard(&self) -> Self::Guard<'_> {
        match self {
            Node::Leaf(l) => NodeAcc::Leaf(l.guard()),
            Node::Unit(u) => NodeAcc::Unit(u.guard()),
            Node::Boxed(c) => NodeAcc::Coll(Box::new(c.guard())),
            Node::Ref(c) => NodeAcc::Coll(Box::new(c.get().guard())),
            Node::Retry(c) => NodeAcc::Coll(Box::new(c.guard())),
            Node::PBoxed(c) => NodeAcc::PColl(Box::new(c.guard())),
            Node::PRetry(c) => NodeAcc::PColl(Box::new(c.guard())),
            Node::Shared(n) => n.guard(),
            Node::OwnBoxed(c) => NodeAcc::Unit(c.guard()),
            Node::OwnRetry(c) => NodeAcc::Unit(c.guard()),
            Node::OwnRef(c) => NodeAcc::Unit(c.get().guard()),
            Node::OwnOwned(c) => NodeAcc::Unit(c.guard()),
            Node::POwnBoxed(c) => NodeAcc::PUnit(Box::new(c.guard())),
            Node::POwnRetry(c) => NodeAcc::PUnit(Box::new(c.guard())),
            Node::POwnOwned(c) => NodeAcc::PUnit(Box::new(c.guard())),
            Node::Tagged(n, _) => n.guard(),
            Node::DRef(c) => NodeAcc::Unit(c.guard()),
            Node::DBoxed(c) => NodeAcc::Unit(c.guard()),
            Node::DRetry(c) => NodeAcc::Unit(c.guard()),
            Node::PDBoxed(c) => NodeAcc::PUnit(Box::new(c.guard())),
            Node::PDRetry(c) => NodeAcc::PUnit(Box::new(c.guard())),
            Node::RUnit(u) => NodeAcc::Unit(u.guard()),
            Node::Group(c) => NodeAcc::Coll(Box::new(c.guard())),
            Node::Group0 => unreachable!("happysim: placeholder node locked"),
            Node::MBoxed(c) => NodeAcc::Unit(c.guard()),
            Node::MRetry(c) => NodeAcc::Unit(c.guard()),
            Node::MOwned(c) => NodeAcc::Unit(c.guard()),
            Node::MRef(c) => NodeAcc::Unit(c.get().guard()),
            Node::Slice(_) => slice_member(),
        }
    }
    unsafe fn data_mut(&self) -> Self::DataMut<'_> {
        match self {
            Node::Leaf(l) => NodeAcc::Leaf(l.data_mut()),
            Node::Unit(u) => NodeAcc::Unit(u.data_mut()),
            Node::Boxed(c) => NodeAcc::Coll(Box::new(c.data_mut())),
            Node::Ref(c) => NodeAcc::Coll(Box::new(c.get().data_mut())),
            Node::Retry(c) => NodeAcc::Coll(Box::new(c.data_mut())),
            Node::PBoxed(c) => NodeAcc::PColl(Box::new(c.data_mut())),
            Node::PRetry(c) => NodeAcc::PColl(Box::new(c.data_mut())),
            Node::Shared(n) => n.data_mut(),
            Node::OwnBoxed(c) => NodeAcc::Unit(c.data_mut()),
            Node::OwnRetry(c) => NodeAcc::Unit(c.data_mut()),
            Node::OwnRef(c) => NodeAcc::Unit(c.get().data_mut()),
            Node::OwnOwned(c) => NodeAcc::Unit(c.data_mut()),
            Node::POwnBoxed(c) => NodeAcc::PUnit(Box::new(c.data_mut())),
            Node::POwnRetry(c) => NodeAcc::PUnit(Box::new(c.data_mut())),
            Node::POwnOwned(c) => NodeAcc::PUnit(Box::new(c.data_mut())),
            Node::Tagged(n, _) => n.data_mut(),
            Node::DRef(c) => NodeAcc::Unit(c.data_mut()),
            Node::DBoxed(c) => NodeAcc::Unit(c.data_mut()),
            Node::DRetry(c) => NodeAcc::Unit(c.data_mut()),
            Node::PDBoxed(c) => NodeAcc::PUnit(Box::new(c.data_mut())),
            Node::PDRetry(c) => NodeAcc::PUnit(Box::new(c.data_mut())),
            Node::RUnit(u) => NodeAcc::Unit(u.data_mut()),
            Node::Group(c) => NodeAcc::Coll(Box::new(c.data_mut())),
            Node::Group0 => unreachable!("happysim: placeholder node locked"),
            Node::MBoxed(c) => NodeAcc::Unit(c.data_mut()),
            Node::MRetry(c) => NodeAcc::Unit(c.data_mut()),
            Node::MOwned(c) => NodeAcc::Unit(c.data_mut()),
            Node::MRef(c) => NodeAcc::Unit(c.get().data_mut()),
            Node::Slice(_) => slice_member(),
        }
    }
}

unsafe impl Sharable for Node {
    type ReadGuard<'g>
        = NodeAcc<'g, RG>
    where
        Self: 'g;
    type DataRef<'a>
        = NodeAcc<'a, DR>
    where
        Self: 'a;

    unsafe fn read_guard(&self) -> Self::ReadGuard<'_> {
        match self {
            Node::Leaf(l) => NodeAcc::Leaf(l.read_guard()),
            Node::Unit(u) => NodeAcc::Unit(u.read_guard()),
            Node::Boxed(c) => NodeAcc::Coll(Box::new(c.read_guard())),
            Node::Ref(c) => NodeAcc::Coll(Box::new(c.get().read_guard())),
            Node::Retry(c) => NodeAcc::Coll(Box::new(c.read_guard())),
            Node::PBoxed(c) => NodeAcc::PColl(Box::new(c.read_guard())),
            Node::PRetry(c) => NodeAcc::PColl(Box::new(c.read_guard())),
            Node::Shared(n) => n.read_guard(),
            Node::OwnBoxed(c) => NodeAcc::Unit(c.read_guard()),
            Node::OwnRetry(c) => NodeAcc::Unit(c.read_guard()),
            Node::OwnRef(c) => NodeAcc::Unit(c.get().read_guard()),
            Node::OwnOwned(c) => NodeAcc::Unit(c.read_guard()),
            Node::POwnBoxed(c) => NodeAcc::PUnit(Box::new(c.read_guard())),
            Node::POwnRetry(c) => NodeAcc::PUnit(Box::new(c.read_guard())),
            Node::POwnOwned(c) => NodeAcc::PUnit(Box::new(c.read_guard())),
            Node::Tagged(n, _) => n.read_guard(),
            Node::DRef(c) => NodeAcc::Unit(c.read_guard()),
            Node::DBoxed(c) => NodeAcc::Unit(c.read_guard()),
            Node::DRetry(c) => NodeAcc::Unit(c.read_guard()),
            Node::PDBoxed(c) => NodeAcc::PUnit(Box::new(c.read_guard())),
            Node::PDRetry(c) => NodeAcc::PUnit(Box::new(c.read_guard())),
            Node::RUnit(u) => NodeAcc::Unit(u.read_guard()),
            Node::Group(c) => NodeAcc::Coll(Box::new(c.read_guard())),
            Node::Group0 => unreachable!("happysim: placeholder node locked"),
            Node::MBoxed(c) => NodeAcc::Unit(c.read_guard()),
            Node::MRetry(c) => NodeAcc::Unit(c.read_guard()),
            Node::MOwned(c) => NodeAcc::Unit(c.read_guard()),
            Node::MRef(c) => NodeAcc::Unit(c.get().read_guard()),
            Node::Slice(_) => slice_member(),
        }
    }
    unsafe fn data_ref(&self) -> Self::DataRef<'_> {
        match self {
            Node::Leaf(l) => NodeAcc::Leaf(l.data_ref()),
            Node::Unit(u) => NodeAcc::Unit(u.data_ref()),
            Node::Boxed(c) => NodeAcc::Coll(Box::new(c.data_ref())),
            Node::Ref(c) => NodeAcc::Coll(Box::new(c.get().data_ref())),
            Node::Retry(c) => NodeAcc::Coll(Box::new(c.data_ref())),
            Node::PBoxed(c) => NodeAcc::PColl(Box::new(c.data_ref())),
            Node::PRetry(c) => NodeAcc::PColl(Box::new(c.data_ref())),
            Node::Shared(n) => n.data_ref(),
            Node::OwnBoxed(c) => NodeAcc::Unit(c.data_ref()),
            Node::OwnRetry(c) => NodeAcc::Unit(c.data_ref()),
            Node::OwnRef(c) => NodeAcc::Unit(c.get().data_ref()),
            Node::OwnOwned(c) => NodeAcc::Unit(c.data_ref()),
            Node::POwnBoxed(c) => NodeAcc::PUnit(Box::new(c.data_ref())),
            Node::POwnRetry(c) => NodeAcc::PUnit(Box::new(c.data_ref())),
            Node::POwnOwned(c) => NodeAcc::PUnit(Box::new(c.data_ref())),
            Node::Tagged(n, _) => n.data_ref(),
            Node::DRef(c) => NodeAcc::Unit(c.data_ref()),
            Node::DBoxed(c) => NodeAcc::Unit(c.data_ref()),
            Node::DRetry(c) => NodeAcc::Unit(c.data_ref()),
            Node::PDBoxed(c) => NodeAcc::PUnit(Box::new(c.data_ref())),
            Node::PDRetry(c) => NodeAcc::PUnit(Box::new(c.data_ref())),
            Node::RUnit(u) => NodeAcc::Unit(u.data_ref()),
            Node::Group(c) => NodeAcc::Coll(Box::new(c.data_ref())),
            Node::Group0 => unreachable!("happysim: placeholder node locked"),
            Node::MBoxed(c) => NodeAcc::Unit(c.data_ref()),
            Node::MRetry(c) => NodeAcc::Unit(c.data_ref()),
            Node::MOwned(c) => NodeAcc::Unit(c.data_ref()),
            Node::MRef(c) => NodeAcc::Unit(c.get().data_ref()),
            Node::Slice(_) => slice_member(),
        }
    }
}

impl<'g, F: Fam> NodeAcc<'g, F> {
    /// walk along `path` (member indices) to a leaf payload; `layers` collects the Ok/Err of
    /// every Poisonable layer crossed, outermost first
    pub fn visit<'x>(&'x mut self, path: &[u8], layers: &mut Vec<bool>) -> PayRef<'x> {
        match self {
            NodeAcc::Leaf(l) => {
                assert!(path.is_empty(), "happysim: path continues below a leaf");
                l.open(layers)
            }
            NodeAcc::Unit(c) => {
                assert!(path.len() == 1, "happysim: unit path must have one index");
                c.get_mut(path[0] as usize).open(layers)
            }
            NodeAcc::Coll(c) => c.get_mut(path[0] as usize).visit(&path[1..], layers),
            NodeAcc::PColl(p) => {
                let (e, inner) = F::p_open(&mut **p);
                layers.push(e);
                inner.get_mut(path[0] as usize).visit(&path[1..], layers)
            }
            NodeAcc::PUnit(p) => {
                assert!(path.len() == 1, "happysim: unit path must have one index");
                let (e, inner) = F::p_open(&mut **p);
                layers.push(e);
                inner.get_mut(path[0] as usize).open(layers)
            }
        }
    }
}

impl<'g, F: Fam> FCont<'g, F, NodeAcc<'g, F>> {
    pub fn visit<'x>(&'x mut self, path: &[u8], layers: &mut Vec<bool>) -> PayRef<'x> {
        self.get_mut(path[0] as usize).visit(&path[1..], layers)
    }
}

impl<'g, F: Fam> FCont<'g, F, LeafAcc<'g, F>> {
    pub fn visit_leaf<'x>(&'x mut self, path: &[u8], layers: &mut Vec<bool>) -> PayRef<'x> {
        assert!(path.len() == 1, "happysim: unit path must have one index");
        self.get_mut(path[0] as usize).open(layers)
    }
}


// ---------------------------------------------------------------------------------------
// Constructors chosen by the compiler's own verdict: `new` (no duplicate check) if the data
// type is accepted as `OwnedLockable`, otherwise the checked constructor. For data that
// merely refers to locks the verdict must be "not owned"; the simulation then sees what a
// wrong verdict leads to (a collection with a repeated lock that was never checked).

pub struct Pick<L>(pub Option<L>);

pub trait Checked<L> {
    /// (used the unchecked constructor, result)
    fn boxed(&mut self) -> (bool, Option<BoxedLockCollection<L>>);
    fn retry(&mut self) -> (bool, Option<RetryingLockCollection<L>>);
    fn owned(&mut self) -> (bool, Option<OwnedLockCollection<L>>);
    fn reff(&mut self) -> (bool, Option<RefHolder<L>>);
}

impl<L: Lockable + 'static> Checked<L> for Pick<L> {
    fn boxed(&mut self) -> (bool, Option<BoxedLockCollection<L>>) {
        (false, BoxedLockCollection::try_new(self.0.take().unwrap()))
    }
    fn retry(&mut self) -> (bool, Option<RetryingLockCollection<L>>) {
        (false, RetryingLockCollection::try_new(self.0.take().unwrap()))
    }
    fn owned(&mut self) -> (bool, Option<OwnedLockCollection<L>>) {
        // an owned collection has no checked constructor at all
        self.0.take();
        (false, None)
    }
    fn reff(&mut self) -> (bool, Option<RefHolder<L>>) {
        (false, RefHolder::try_new(self.0.take().unwrap()))
    }
}

impl<L: OwnedLockable + 'static> Pick<L> {
    pub fn boxed(&mut self) -> (bool, Option<BoxedLockCollection<L>>) {
        (true, Some(BoxedLockCollection::new(self.0.take().unwrap())))
    }
    pub fn retry(&mut self) -> (bool, Option<RetryingLockCollection<L>>) {
        (true, Some(RetryingLockCollection::new(self.0.take().unwrap())))
    }
    pub fn owned(&mut self) -> (bool, Option<OwnedLockCollection<L>>) {
        (true, Some(OwnedLockCollection::new(self.0.take().unwrap())))
    }
    pub fn reff(&mut self) -> (bool, Option<RefHolder<L>>) {
        (true, Some(RefHolder::new_owned(self.0.take().unwrap())))
    }
}


// ---------------------------------------------------------------------------------------
// `&mut` access to the child of a retrying collection *whose members are references*, if
// the library offers it for such members (inherent method wins over this fallback trait).

pub struct NoAccess;
pub trait ChildMutFallback {
    fn child_mut(&mut self) -> NoAccess {
        NoAccess
    }
}
impl ChildMutFallback for RetryingLockCollection<CN> {}

pub trait IntoChildOpt<'a> {
    fn into_opt(self) -> Option<&'a mut CN>;
}
impl<'a> IntoChildOpt<'a> for &'a mut CN {
    fn into_opt(self) -> Option<&'a mut CN> {
        Some(self)
    }
}
impl<'a> IntoChildOpt<'a> for NoAccess {
    fn into_opt(self) -> Option<&'a mut CN> {
        None
    }
}

/// the method-call fallback for `iter_mut()`
pub struct NoIter;
pub trait IterMutFallback {
    fn iter_mut(&mut self) -> NoIter {
        NoIter
    }
}
impl IterMutFallback for RetryingLockCollection<CN> {}
pub trait FirstOpt<'a> {
    /// None: no such access; Some(first element)
    fn first_opt(self) -> Option<Option<&'a mut Node>>;
}
impl<'a> FirstOpt<'a> for NoIter {
    fn first_opt(self) -> Option<Option<&'a mut Node>> {
        None
    }
}
impl<'a, I: Iterator<Item = &'a mut Node>> FirstOpt<'a> for I {
    fn first_opt(mut self) -> Option<Option<&'a mut Node>> {
        Some(self.next())
    }
}

/// List `extra` once more in a retrying collection over reference members through any route
/// that gives safe code `&mut` access to its child: `child_mut()`, `AsMut`, `iter_mut()`,
/// `(&mut c).into_iter()`, `Extend`. Returns the route taken, None if the library offers none
/// for such members (as it must: no safe operation may leave a collection with a repeated lock).
pub fn relist_through_child_mut(c: &mut RetryingLockCollection<CN>, extra: Node) -> Option<&'static str> {
    #[allow(unused_imports)]
    use self::ChildMutFallback as _;
    #[allow(unused_imports)]
    use self::IterMutFallback as _;
    #[allow(unused_imports)]
    use crate::caps::BoundNo as _;
    if let Some(Cont::V(v)) = c.child_mut().into_opt() {
        v.push(extra);
        return Some("child_mut");
    }
    let b = crate::caps::bound::<RetryingLockCollection<CN>, CN>();
    if let Some(Cont::V(v)) = b.as_mut_of(c) {
        v.push(extra);
        return Some("as_mut");
    }
    // through an element: overwrite the last member with the extra one (the first stays listed)
    if let Some(it) = c.iter_mut().first_opt() {
        if let Some(first) = it {
            *first = extra;
            return Some("iter_mut");
        }
        return None;
    }
    let bn = crate::caps::bound::<RetryingLockCollection<CN>, Node>();
    if let Some(it) = bn.first_mut_of(c) {
        if let Some(first) = it {
            *first = extra;
            return Some("into_iter_mut");
        }
        return None;
    }
    match bn.extend_with(c, extra) {
        Ok(()) => Some("extend"),
        Err(_) => None,
    }
}

// ---------------------------------------------------------------------------------------
// shared access to the members of an owned collection (there must be none)

pub trait ChildFallback {
    fn child(&self) -> NoAccess {
        NoAccess
    }
}
impl ChildFallback for RUnit {}
pub trait SharedChildOpt<'a> {
    fn shared_opt(self) -> Option<&'a CML>;
}
impl<'a> SharedChildOpt<'a> for &'a CML {
    fn shared_opt(self) -> Option<&'a CML> {
        Some(self)
    }
}
impl<'a> SharedChildOpt<'a> for NoAccess {
    fn shared_opt(self) -> Option<&'a CML> {
        None
    }
}
pub trait IterFallback {
    fn iter(&self) -> NoIter {
        NoIter
    }
}
impl IterFallback for RUnit {}
pub trait AllOpt<'a> {
    fn all_opt(self) -> Option<Vec<&'a &'static mut Leaf>>;
}
impl<'a> AllOpt<'a> for NoIter {
    fn all_opt(self) -> Option<Vec<&'a &'static mut Leaf>> {
        None
    }
}
impl<'a, I: Iterator<Item = &'a &'static mut Leaf>> AllOpt<'a> for I {
    fn all_opt(self) -> Option<Vec<&'a &'static mut Leaf>> {
        Some(self.collect())
    }
}

/// shared references to the members of an owned collection over `&mut` leaves, through
/// `child()`, `AsRef`, `iter()` or `&collection` as an iterator - whichever the library offers
pub fn expose_owned(u: &'static RUnit) -> Option<(Vec<&'static Leaf>, &'static str)> {
    #[allow(unused_imports)]
    use self::ChildFallback as _;
    #[allow(unused_imports)]
    use self::IterFallback as _;
    #[allow(unused_imports)]
    use crate::caps::BoundNo as _;
    fn refs(c: &'static CML) -> Vec<&'static Leaf> {
        c.into_iter().map(|m| &**m).collect()
    }
    if let Some(c) = u.child().shared_opt() {
        return Some((refs(c), "child"));
    }
    if let Some(c) = crate::caps::bound::<RUnit, CML>().as_ref_of(u) {
        return Some((refs(c), "as_ref"));
    }
    if let Some(ms) = u.iter().all_opt() {
        return Some((ms.into_iter().map(|m| &**m).collect(), "iter"));
    }
    if let Some(ms) = crate::caps::bound::<RUnit, &'static mut Leaf>().iter_shared_of(u) {
        return Some((ms.into_iter().map(|m| &**m).collect(), "into_iter"));
    }
    None
}

/// exchange two member guards of the same type (what `mem::swap` does with two `&mut guard`)
///
/// # Safety
/// both addresses point to live guards of the type named by `tag`, not otherwise borrowed
pub unsafe fn swap_member_guards(a: usize, b: usize, tag: u8) {
    match tag {
        1 => std::ptr::swap(a as *mut MutexRef<'static, Pay, SimRawMutex>, b as *mut MutexRef<'static, Pay, SimRawMutex>),
        2 => std::ptr::swap(a as *mut RwLockWriteRef<'static, Pay, SimRawRwLock>, b as *mut RwLockWriteRef<'static, Pay, SimRawRwLock>),
        3 => std::ptr::swap(a as *mut RwLockReadRef<'static, Pay, SimRawRwLock>, b as *mut RwLockReadRef<'static, Pay, SimRawRwLock>),
        _ => panic!("happysim: unknown member guard tag"),
    }
}

// ---------------------------------------------------------------------------------------
// a reference to the lock a member guard holds (`guard.mutex()` / `guard.rwlock()`, as
// lock_api's guards offer): the library's guards must not hand one out - with it the
// members of an owned collection are reachable by shared reference

pub trait MutexAccessorFallback {
    // (an associated function, called by path: finds a library `fn mutex(&self)` as well as a
    // lock_api-style `fn mutex(s: &Self)`)
    fn mutex(_this: &Self) -> NoAccess {
        NoAccess
    }
}
impl MutexAccessorFallback for MutexRef<'_, Pay, SimRawMutex> {}
pub trait RwAccessorFallback {
    fn rwlock(_this: &Self) -> NoAccess {
        NoAccess
    }
}
impl RwAccessorFallback for RwLockWriteRef<'_, Pay, SimRawRwLock> {}
impl RwAccessorFallback for RwLockReadRef<'_, Pay, SimRawRwLock> {}
pub trait LockAddr {
    fn lock_addr(self) -> Option<usize>;
}
impl LockAddr for NoAccess {
    fn lock_addr(self) -> Option<usize> {
        None
    }
}
impl LockAddr for &M {
    fn lock_addr(self) -> Option<usize> {
        Some(self as *const M as usize)
    }
}
impl LockAddr for &R {
    fn lock_addr(self) -> Option<usize> {
        Some(self as *const R as usize)
    }
}
