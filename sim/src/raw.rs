//! The raw locks given to happylock through its `R` type parameter. Identity is the address
//! (looked up in the world's registry) and the authoritative state lives in the scheduler's
//! owner table; the one byte inside the lock mirrors that state (0 free, 255 exclusive, n
//! readers), so that code which overwrites or re-initialises a raw lock instead of operating
//! it is noticed at the next operation on it and when it is dropped.

use crate::sched::{self, RawOp};
use std::panic::resume_unwind;
use std::sync::atomic::{AtomicU8, Ordering};

/// payload of a panic injected into a raw lock operation
#[derive(Debug)]
pub struct RawFault;

/// non-zero sized so that its address lies strictly inside the enclosing lock
pub struct SimRawMutex(AtomicU8);
pub struct SimRawRwLock(AtomicU8);

thread_local! {
    /// recording mode (used outside the simulated threads, for locks that are not part of the
    /// world): every operation succeeds at once and is appended here as (address, operation)
    pub static RECORD: std::cell::RefCell<Option<Vec<(usize, RawOp)>>> = const { std::cell::RefCell::new(None) };
}

/// run `f` with this thread's raw lock operations recorded instead of simulated
pub fn recording<T>(f: impl FnOnce() -> T) -> (T, Vec<(usize, RawOp)>) {
    // (recording ends even if `f` unwinds)
    struct Off;
    impl Drop for Off {
        fn drop(&mut self) {
            RECORD.with(|r| *r.borrow_mut() = None);
        }
    }
    RECORD.with(|r| *r.borrow_mut() = Some(Vec::new()));
    let off = Off;
    let out = f();
    let seq = RECORD.with(|r| r.borrow_mut().take()).unwrap_or_default();
    drop(off);
    (out, seq)
}

#[inline(never)]
fn op(mirror: &AtomicU8, op: RawOp) -> bool {
    let addr = mirror as *const _ as usize;
    let recorded = RECORD.with(|r| match r.borrow_mut().as_mut() {
        Some(v) => {
            v.push((addr, op));
            true
        }
        None => false,
    });
    if recorded {
        return true;
    }
    let s = match sched::cur() {
        Some(s) => s,
        None => panic!("happysim: raw lock op {:?} with no world installed", op),
    };
    s.check_mirror(addr, mirror.load(Ordering::Relaxed), "before an operation on it");
    // the scheduler keeps the byte in step with the owner table when the operation takes effect
    let g = s.raw(addr, op);
    if g.panic {
        resume_unwind(Box::new(RawFault));
    }
    g.ok
}

fn dropped(mirror: &AtomicU8) {
    if RECORD.with(|r| r.borrow().is_some()) {
        return;
    }
    if let Some(s) = sched::cur() {
        s.check_mirror(mirror as *const _ as usize, mirror.load(Ordering::Relaxed), "when it was dropped");
    }
}
impl Drop for SimRawMutex {
    fn drop(&mut self) {
        dropped(&self.0);
    }
}
impl Drop for SimRawRwLock {
    fn drop(&mut self) {
        dropped(&self.0);
    }
}

unsafe impl lock_api::RawMutex for SimRawMutex {
    #[allow(clippy::declare_interior_mutable_const)]
    const INIT: Self = SimRawMutex(AtomicU8::new(0));
    // the permissive choice (as in spin, or parking_lot with `send_guard`): whatever the library
    // lets safe code do with guards of such locks is part of what is simulated
    type GuardMarker = lock_api::GuardSend;

    fn lock(&self) {
        op(&self.0, RawOp::Lock);
    }
    fn try_lock(&self) -> bool {
        op(&self.0, RawOp::TryLock)
    }
    unsafe fn unlock(&self) {
        op(&self.0, RawOp::Unlock);
    }
}

unsafe impl lock_api::RawRwLock for SimRawRwLock {
    #[allow(clippy::declare_interior_mutable_const)]
    const INIT: Self = SimRawRwLock(AtomicU8::new(0));
    // the permissive choice (as in spin, or parking_lot with `send_guard`): whatever the library
    // lets safe code do with guards of such locks is part of what is simulated
    type GuardMarker = lock_api::GuardSend;

    fn lock_shared(&self) {
        op(&self.0, RawOp::LockShared);
    }
    fn try_lock_shared(&self) -> bool {
        op(&self.0, RawOp::TryLockShared)
    }
    unsafe fn unlock_shared(&self) {
        op(&self.0, RawOp::UnlockShared);
    }
    fn lock_exclusive(&self) {
        op(&self.0, RawOp::LockExcl);
    }
    fn try_lock_exclusive(&self) -> bool {
        op(&self.0, RawOp::TryLockExcl)
    }
    unsafe fn unlock_exclusive(&self) {
        op(&self.0, RawOp::UnlockExcl);
    }
}
