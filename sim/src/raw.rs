//! The raw locks given to happylock through its `R` type parameter. They carry no state of
//! their own: identity is the address (looked up in the world's registry), state lives in
//! the scheduler's owner table.

use crate::sched::{self, RawOp};
use std::panic::resume_unwind;

/// payload of a panic injected into a raw lock operation
#[derive(Debug)]
pub struct RawFault;

/// non-zero sized so that its address lies strictly inside the enclosing lock
pub struct SimRawMutex(#[allow(dead_code)] u8);
pub struct SimRawRwLock(#[allow(dead_code)] u8);

#[inline(never)]
fn op(addr: usize, op: RawOp) -> bool {
    let s = match sched::cur() {
        Some(s) => s,
        None => panic!("happysim: raw lock op {:?} with no world installed", op),
    };
    let g = s.raw(addr, op);
    if g.panic {
        resume_unwind(Box::new(RawFault));
    }
    g.ok
}

unsafe impl lock_api::RawMutex for SimRawMutex {
    #[allow(clippy::declare_interior_mutable_const)]
    const INIT: Self = SimRawMutex(0);
    // the permissive choice (as in spin, or parking_lot with `send_guard`): whatever the library
    // lets safe code do with guards of such locks is part of what is simulated
    type GuardMarker = lock_api::GuardSend;

    fn lock(&self) {
        op(self as *const _ as usize, RawOp::Lock);
    }
    fn try_lock(&self) -> bool {
        op(self as *const _ as usize, RawOp::TryLock)
    }
    unsafe fn unlock(&self) {
        op(self as *const _ as usize, RawOp::Unlock);
    }
}

unsafe impl lock_api::RawRwLock for SimRawRwLock {
    #[allow(clippy::declare_interior_mutable_const)]
    const INIT: Self = SimRawRwLock(0);
    // the permissive choice (as in spin, or parking_lot with `send_guard`): whatever the library
    // lets safe code do with guards of such locks is part of what is simulated
    type GuardMarker = lock_api::GuardSend;

    fn lock_shared(&self) {
        op(self as *const _ as usize, RawOp::LockShared);
    }
    fn try_lock_shared(&self) -> bool {
        op(self as *const _ as usize, RawOp::TryLockShared)
    }
    unsafe fn unlock_shared(&self) {
        op(self as *const _ as usize, RawOp::UnlockShared);
    }
    fn lock_exclusive(&self) {
        op(self as *const _ as usize, RawOp::LockExcl);
    }
    fn try_lock_exclusive(&self) -> bool {
        op(self as *const _ as usize, RawOp::TryLockExcl)
    }
    unsafe fn unlock_exclusive(&self) {
        op(self as *const _ as usize, RawOp::UnlockExcl);
    }
}
