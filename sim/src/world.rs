//! Builds the real happylock objects of a run from a `WorldSpec`.
//!
//! All leaf locks and owned units live in one boxed slice (the arena), so address order ==
//! slot order, which the simulator chooses. Lifetimes are extended to 'static with unsafe
//! (test scaffolding); teardown is manual and in reverse construction order.

use crate::pay::Pay;
use crate::sched::{Clause, Lid, Sched};
use crate::shape::*;
use crate::spec::*;
use happylock::collection::{BoxedLockCollection, OwnedLockCollection, RefLockCollection, RetryingLockCollection};
use happylock::poisonable::Poisonable;

#[derive(Debug)]
pub enum SlotObj {
    Leaf(Leaf),
    Unit(Unit),
    RUnit(RUnit),
    Empty,
}

pub struct World {
    pub spec: WorldSpec,
    arena: *mut [SlotObj],
    leaf_ptr: Vec<Option<*const Leaf>>,
    unit_ptr: Vec<Option<*const Unit>>,
    runit_ptr: Vec<Option<*const RUnit>>,
    /// shared targets (None if construction was rejected)
    targets: Vec<std::sync::atomic::AtomicPtr<Node>>,
    datas: Vec<*mut CML>,
    /// cells holding the shared references that `MutRefs` targets borrow mutably
    cells: std::sync::Mutex<Vec<usize>>,
    cell_lens: std::sync::Mutex<Vec<usize>>,
}

unsafe impl Send for World {}
unsafe impl Sync for World {}

pub const INIT_VAL: u64 = 7;

#[derive(Debug)]
pub enum BuildErr {
    /// a checked constructor returned None (and the oracle agrees there is a duplicate)
    Rejected,
    /// harness problem
    Bad(String),
}

impl World {
    pub fn new(spec: &WorldSpec, sched: &Sched) -> World {
        let nl = spec.leaves.len();
        let mut slots: Vec<SlotObj> = Vec::with_capacity(spec.slots.len());
        for s in &spec.slots {
            match s {
                Slot::Leaf(l) => slots.push(SlotObj::Leaf(Leaf::new(spec.leaves[*l], Pay::new(*l, INIT_VAL)))),
                Slot::Unit(u) if spec.units[*u].by_ref => slots.push(SlotObj::Empty),
                Slot::Unit(u) => {
                    let us = &spec.units[*u];
                    let leaves: Vec<Leaf> = us.leaves.iter().map(|l| Leaf::new(spec.leaves[*l], Pay::new(*l, INIT_VAL))).collect();
                    slots.push(SlotObj::Unit(OwnedLockCollection::new(Cont::build(us.cont, leaves))));
                }
            }
        }
        let arena: *mut [SlotObj] = Box::into_raw(slots.into_boxed_slice());
        let mut leaf_ptr = vec![None; nl];
        let mut unit_ptr = vec![None; spec.units.len()];
        let mut runit_ptr = vec![None; spec.units.len()];
        {
            let mut g = sched.lock();
            g.shadow = vec![INIT_VAL; nl];
            for (i, s) in spec.slots.iter().enumerate() {
                let obj: &mut SlotObj = unsafe { &mut (*arena)[i] };
                match (s, obj) {
                    (Slot::Leaf(l), SlotObj::Leaf(leaf)) => {
                        let a = leaf as *const Leaf as usize;
                        g.ranges.push((a, a + std::mem::size_of::<Leaf>(), *l));
                        leaf_ptr[*l] = Some(leaf as *const Leaf);
                    }
                    (Slot::Unit(u), SlotObj::Unit(unit)) => {
                        let lids = spec.units[*u].leaves.clone();
                        for (leaf, lid) in unit.child_mut().members().into_iter().zip(lids) {
                            let a = leaf as *const Leaf as usize;
                            g.ranges.push((a, a + std::mem::size_of::<Leaf>(), lid));
                            g.unit_of[lid] = Some(*u);
                        }
                        unit_ptr[*u] = Some(unit as *const Unit);
                    }
                    (Slot::Unit(_), SlotObj::Empty) => {}
                    _ => unreachable!(),
                }
            }
            // units over `&mut` arena leaves are put in place now that the leaves have addresses
            for (i, s) in spec.slots.iter().enumerate() {
                if let Slot::Unit(u) = s {
                    let us = &spec.units[*u];
                    if us.by_ref {
                        let members: Vec<&'static mut Leaf> = us.leaves.iter().map(|l| unsafe { &mut *(leaf_ptr[*l].expect("by_ref unit leaf must have an arena slot") as *mut Leaf) }).collect();
                        let obj: &mut SlotObj = unsafe { &mut (*arena)[i] };
                        *obj = SlotObj::RUnit(OwnedLockCollection::new(Cont::build(us.cont, members)));
                        if let SlotObj::RUnit(r) = obj {
                            runit_ptr[*u] = Some(r as *const RUnit);
                        }
                        for l in &us.leaves {
                            g.unit_of[*l] = Some(*u);
                        }
                    }
                }
            }
        }
        let mut w = World { spec: spec.clone(), arena, leaf_ptr, unit_ptr, runit_ptr, targets: Vec::new(), datas: Vec::new(), cells: std::sync::Mutex::new(Vec::new()), cell_lens: std::sync::Mutex::new(Vec::new()) };
        for d in &spec.datas {
            // exclusive borrows of arena leaves (no other reference to these leaves is ever made)
            let members: Vec<&'static mut Leaf> = d.leaves.iter().map(|l| unsafe { &mut *(w.leaf_ptr[*l].expect("data leaf must have an arena slot") as *mut Leaf) }).collect();
            w.datas.push(Box::into_raw(Box::new(Cont::build(d.cont, members))));
        }
        for i in 0..spec.targets.len() {
            let t = spec.targets[i].clone();
            let r = w.build(&t, sched);
            use std::sync::atomic::AtomicPtr;
            match r {
                Ok(n) => {
                    let p = Box::into_raw(Box::new(n));
                    w.targets.push(AtomicPtr::new(p));
                }
                Err(BuildErr::Rejected) => w.targets.push(AtomicPtr::new(std::ptr::null_mut())),
                Err(BuildErr::Bad(m)) => {
                    sched.lock().event(Clause::Harness, 0, format!("building target {}: {}", i, m));
                    w.targets.push(AtomicPtr::new(std::ptr::null_mut()));
                }
            }
        }
        w
    }

    /// A member guard of by-reference unit `unit` handed out a reference to the lock it holds
    /// (`addr`). While that guard is alive: is (the owned collection, its own member) accepted by
    /// the checked constructors? The member is reachable twice, so it must not be.
    pub fn dup_verdict_with_member(&self, unit: usize, addr: usize, rw: bool, lid: Lid, sched: &Sched) {
        let ru: &RUnit = match self.runit_ptr.get(unit).copied().flatten() {
            Some(p) => unsafe { &*p },
            None => return,
        };
        {
            let mut g = sched.lock();
            g.stats.dup_checks += 1;
            g.stats.dup_pos += 1;
        }
        let accepted = if rw {
            let m: &R = unsafe { &*(addr as *const R) };
            BoxedLockCollection::try_new((ru, m)).is_some() || RetryingLockCollection::try_new((ru, m)).is_some() || RefLockCollection::try_new(&(ru, m)).is_some()
        } else {
            let m: &M = unsafe { &*(addr as *const M) };
            BoxedLockCollection::try_new((ru, m)).is_some() || RetryingLockCollection::try_new((ru, m)).is_some() || RefLockCollection::try_new(&(ru, m)).is_some()
        };
        if accepted {
            sched.report(Clause::DupVerdict, format!("try_new accepted (owned collection, reference to its own member {}): the reference was handed out by the member's guard while the owned collection was held", lid));
        }
    }

    pub fn leaf(&self, l: Lid) -> Option<&'static Leaf> {
        self.leaf_ptr[l].map(|p| unsafe { &*p })
    }
    pub fn unit(&self, u: usize) -> Option<&'static Unit> {
        self.unit_ptr[u].map(|p| unsafe { &*p })
    }
    pub fn target(&self, i: usize) -> Option<&'static Node> {
        let p = self.targets[i].load(std::sync::atomic::Ordering::SeqCst);
        if p.is_null() {
            None
        } else {
            Some(unsafe { &*p })
        }
    }

    /// take a shared target out of the world (destruction paths, C16)
    pub fn take_target(&self, i: usize) -> Option<Box<Node>> {
        let p = self.targets[i].swap(std::ptr::null_mut(), std::sync::atomic::Ordering::SeqCst);
        if p.is_null() {
            None
        } else {
            Some(unsafe { Box::from_raw(p) })
        }
    }

    /// Build a node from a spec. Every checked constructor's verdict is compared with the
    /// duplicate oracle on the flattened element multiset (C07).
    pub fn build(&self, t: &TSpec, sched: &Sched) -> Result<Node, BuildErr> {
        match t {
            TSpec::Leaf(l) => self.leaf(*l).map(Node::Leaf).ok_or_else(|| BuildErr::Bad(format!("leaf {} is owned by a unit", l))),
            TSpec::Unit(u) if self.spec.units[*u].by_ref => self.runit_ptr[*u].map(|p| Node::RUnit(unsafe { &*p })).ok_or_else(|| BuildErr::Bad(format!("no unit {}", u))),
            TSpec::Unit(u) => self.unit(*u).map(Node::Unit).ok_or_else(|| BuildErr::Bad(format!("no unit {}", u))),
            TSpec::Shared(i) => self.target(*i).map(Node::Shared).ok_or(BuildErr::Rejected),
            TSpec::Tagged(tag, inner) => {
                let n = self.build(inner, sched)?;
                {
                    let mut g = sched.lock();
                    if *tag < g.tag_made.len() {
                        g.tag_made[*tag] += 1;
                    }
                }
                Ok(Node::Tagged(Box::new(n), Tag(*tag)))
            }
            TSpec::MutRefs { kind, cont, members } => {
                let mut refs: Vec<&'static Leaf> = Vec::new();
                for l in members {
                    refs.push(self.leaf(*l).ok_or_else(|| BuildErr::Bad(format!("leaf {} has no slot", l)))?);
                }
                let n = refs.len();
                let cells: *mut [&'static Leaf] = Box::into_raw(refs.into_boxed_slice());
                self.cells.lock().unwrap().push(cells as *mut &'static Leaf as usize);
                self.cell_lens.lock().unwrap().push(n);
                let muts: Vec<&'static mut &'static Leaf> = unsafe { (*cells).iter_mut().collect() };
                let mut pick = Pick(Some(Cont::build(*cont, muts)));
                let dup = self.spec.has_dup(t);
                #[allow(unused_imports)]
                use crate::shape::Checked;
                let (unchecked, node) = match kind {
                    OwnKind::Boxed => {
                        let (u, c) = pick.boxed();
                        (u, c.map(Node::MBoxed))
                    }
                    OwnKind::Retry => {
                        let (u, c) = pick.retry();
                        (u, c.map(|c| Node::MRetry(Box::new(c))))
                    }
                    OwnKind::Owned => return Err(BuildErr::Bad("MutRefs cannot be an owned collection".into())),
                    OwnKind::Ref => {
                        let (u, c) = pick.reff();
                        (u, c.map(Node::MRef))
                    }
                };
                if unchecked {
                    // the compiler let data that merely refers to locks through the constructors that skip the check
                    sched.report(Clause::DupVerdict, format!("the compiler accepts a container of `&mut &lock` as OwnedLockable: {:?}::new was used without any duplicate check on elements {:?}", kind, self.spec.elems(t)));
                    return node.ok_or(BuildErr::Rejected);
                }
                if *kind == OwnKind::Owned {
                    return Err(BuildErr::Rejected);
                }
                match (node, dup) {
                    (Some(n), false) => Ok(n),
                    (None, true) => Err(BuildErr::Rejected),
                    (Some(_), true) => {
                        sched.report(Clause::DupVerdict, format!("{:?} try_new accepted `&mut &lock` members {:?} which contain a duplicate", kind, self.spec.elems(t)));
                        Err(BuildErr::Rejected)
                    }
                    (None, false) => {
                        sched.report(Clause::DupVerdict, format!("{:?} try_new rejected duplicate-free `&mut &lock` members {:?}", kind, self.spec.elems(t)));
                        Err(BuildErr::Rejected)
                    }
                }
            }
            TSpec::Exposed { unit } => {
                let ru: &'static RUnit = self.runit_ptr.get(*unit).copied().flatten().map(|p| unsafe { &*p }).ok_or_else(|| BuildErr::Bad(format!("no by-reference unit {}", unit)))?;
                match crate::shape::expose_owned(ru) {
                    Some((refs, _route)) => BoxedLockCollection::try_new(refs).map(|c| Node::Slice(crate::shape::SNode::BoxedV(c))).ok_or(BuildErr::Rejected),
                    // as it must be: an owned collection shows its members to nobody
                    None => Err(BuildErr::Rejected),
                }
            }
            TSpec::Slice { kind, members, array: true, .. } => {
                let mut refs: Vec<&'static Leaf> = Vec::new();
                for l in members {
                    refs.push(self.leaf(*l).ok_or_else(|| BuildErr::Bad(format!("leaf {} has no slot", l)))?);
                }
                let dup = self.spec.has_dup(t);
                use crate::shape::SNode;
                let node = match (kind, refs.len()) {
                    (CollKind::Boxed, 2) => BoxedLockCollection::try_new([refs[0], refs[1]]).map(SNode::BoxedA2),
                    (CollKind::Retry, 3) => RetryingLockCollection::try_new([refs[0], refs[1], refs[2]]).map(|c| SNode::RetryA3(Box::new(c))),
                    _ => return Err(BuildErr::Bad(format!("no array target for {:?} with {} members", kind, refs.len()))),
                };
                {
                    let mut g = sched.lock();
                    g.stats.dup_checks += 1;
                    if dup {
                        g.stats.dup_pos += 1;
                    }
                }
                match (node, dup) {
                    (Some(n), false) => Ok(Node::Slice(n)),
                    (None, true) => Err(BuildErr::Rejected),
                    (Some(_), true) => {
                        sched.report(Clause::DupVerdict, format!("{:?} try_new accepted an array of references {:?} which contains a duplicate", kind, self.spec.elems(t)));
                        Err(BuildErr::Rejected)
                    }
                    (None, false) => {
                        sched.report(Clause::DupVerdict, format!("{:?} try_new rejected a duplicate-free array of references {:?}", kind, self.spec.elems(t)));
                        Err(BuildErr::Rejected)
                    }
                }
            }
            TSpec::Slice { kind, boxed, members, poison, .. } => {
                let mut refs: Vec<&'static Leaf> = Vec::new();
                for l in members {
                    refs.push(self.leaf(*l).ok_or_else(|| BuildErr::Bad(format!("leaf {} has no slot", l)))?);
                }
                let dup = self.spec.has_dup(t);
                use crate::shape::SNode;
                let node = match (kind, boxed, poison) {
                    (CollKind::Boxed, false, false) => BoxedLockCollection::try_new(refs).map(SNode::BoxedV),
                    (CollKind::Boxed, true, false) => BoxedLockCollection::try_new(refs.into_boxed_slice()).map(SNode::BoxedB),
                    (CollKind::Retry, false, false) => RetryingLockCollection::try_new(refs).map(|c| SNode::RetryV(Box::new(c))),
                    (CollKind::Ref, true, false) => RefHolder::try_new(refs.into_boxed_slice()).map(SNode::RefB),
                    (CollKind::Boxed, false, true) => BoxedLockCollection::try_new(refs).map(|c| SNode::PBoxedV(Box::new(Poisonable::new(c)))),
                    (CollKind::Retry, true, true) => RetryingLockCollection::try_new(refs.into_boxed_slice()).map(|c| SNode::PRetryB(Box::new(Poisonable::new(c)))),
                    _ => return Err(BuildErr::Bad(format!("no slice target for {:?} boxed={} poison={}", kind, boxed, poison))),
                };
                {
                    let mut g = sched.lock();
                    g.stats.dup_checks += 1;
                    if dup {
                        g.stats.dup_pos += 1;
                    }
                }
                match (node, dup) {
                    (Some(n), false) => Ok(Node::Slice(n)),
                    (None, true) => Err(BuildErr::Rejected),
                    (Some(_), true) => {
                        sched.report(Clause::DupVerdict, format!("{:?} try_new accepted a list of references {:?} which contains a duplicate", kind, self.spec.elems(t)));
                        Err(BuildErr::Rejected)
                    }
                    (None, false) => {
                        sched.report(Clause::DupVerdict, format!("{:?} try_new rejected a duplicate-free list of references {:?}", kind, self.spec.elems(t)));
                        Err(BuildErr::Rejected)
                    }
                }
            }
            TSpec::Group { cont, members } => {
                let mut ms = Vec::new();
                for m in members {
                    ms.push(self.build(m, sched)?);
                }
                Ok(Node::Group(Box::new(Cont::build(*cont, ms))))
            }
            TSpec::OnData { data, kind, poison, unchecked: true, .. } => {
                // the public unsafe constructors; their contract (no lock listed twice) holds for owned data
                let d: &'static CML = unsafe { &*self.datas[*data] };
                Ok(unsafe {
                    match (kind, poison) {
                        (CollKind::Ref, _) => Node::DRef(RefLockCollection::new_unchecked(d)),
                        (CollKind::Boxed, false) => Node::DBoxed(BoxedLockCollection::new_unchecked(d)),
                        (CollKind::Boxed, true) => Node::PDBoxed(Box::new(Poisonable::new(BoxedLockCollection::new_unchecked(d)))),
                        (CollKind::Retry, false) => Node::DRetry(Box::new(RetryingLockCollection::new_unchecked(d))),
                        (CollKind::Retry, true) => Node::PDRetry(Box::new(Poisonable::new(RetryingLockCollection::new_unchecked(d)))),
                    }
                })
            }
            TSpec::OnData { data, kind, from, poison, .. } => {
                let d: &'static CML = unsafe { &*self.datas[*data] };
                Ok(match (kind, poison) {
                    (CollKind::Ref, _) => Node::DRef(if *from { RefLockCollection::from(d) } else { RefLockCollection::new(d) }),
                    (CollKind::Boxed, false) => Node::DBoxed(BoxedLockCollection::new_ref(d)),
                    (CollKind::Boxed, true) => Node::PDBoxed(Box::new(Poisonable::new(BoxedLockCollection::new_ref(d)))),
                    (CollKind::Retry, false) => Node::DRetry(Box::new(RetryingLockCollection::new_ref(d))),
                    (CollKind::Retry, true) => Node::PDRetry(Box::new(Poisonable::new(RetryingLockCollection::new_ref(d)))),
                })
            }
            TSpec::Own { kind, cont, leaves, ctor, poison } => self.build_own(*kind, *cont, leaves, *ctor, *poison, sched),
            TSpec::Coll { kind, cont, members, poison } => {
                let mut ms = Vec::new();
                for m in members {
                    ms.push(self.build(m, sched)?);
                }
                let data: CN = Cont::build(*cont, ms);
                let dup = self.spec.has_dup(t);
                let node = match (kind, poison) {
                    (CollKind::Boxed, false) => BoxedLockCollection::try_new(data).map(Node::Boxed),
                    (CollKind::Boxed, true) => BoxedLockCollection::try_new(data).map(|c| Node::PBoxed(Box::new(Poisonable::new(c)))),
                    (CollKind::Ref, _) => RefHolder::try_new(data).map(Node::Ref),
                    (CollKind::Retry, false) => RetryingLockCollection::try_new(data).map(|c| Node::Retry(Box::new(c))),
                    (CollKind::Retry, true) => RetryingLockCollection::try_new(data).map(|c| Node::PRetry(Box::new(Poisonable::new(c)))),
                };
                {
                    let mut g = sched.lock();
                    g.stats.dup_checks += 1;
                    if dup {
                        g.stats.dup_pos += 1;
                    }
                }
                match (node, dup) {
                    (Some(n), false) => Ok(n),
                    (None, true) => Err(BuildErr::Rejected),
                    (Some(_), true) => {
                        sched.report(Clause::DupVerdict, format!("{:?} try_new accepted an input whose element multiset {:?} contains a duplicate", kind, self.spec.elems(t)));
                        Err(BuildErr::Rejected)
                    }
                    (None, false) => {
                        sched.report(Clause::DupVerdict, format!("{:?} try_new rejected a duplicate-free input {:?}", kind, self.spec.elems(t)));
                        Err(BuildErr::Rejected)
                    }
                }
            }
        }
    }

    fn build_own(&self, kind: OwnKind, cont: ContKind, lids: &[Lid], ctor: Ctor, poison: bool, sched: &Sched) -> Result<Node, BuildErr> {
        let mk = |l: &Lid| Leaf::new(self.spec.leaves[*l], Pay::new(*l, INIT_VAL));
        #[allow(unused_imports)]
        use crate::caps::BoundNo as _;
        // a boxed collection can be extended only if the library says so
        let boxed_extend = crate::caps::bound::<BoxedLockCollection<CL>, Leaf>().implements_extend();
        let ctor = match ctor {
            Ctor::NewThenExtend(_) | Ctor::NewThenExtendPanicky(_) if kind == OwnKind::Boxed && !boxed_extend => Ctor::New,
            Ctor::NewThenExtend(_) | Ctor::NewThenExtendPanicky(_) if kind == OwnKind::Ref => Ctor::New,
            c => c,
        };
        let panicky = matches!(ctor, Ctor::NewThenExtendPanicky(_));
        let (first, rest): (&[Lid], &[Lid]) = match ctor {
            Ctor::NewThenExtend(k) | Ctor::NewThenExtendPanicky(k) => lids.split_at(lids.len() - k.min(lids.len())),
            _ => (lids, &[]),
        };
        // An iterator that panics before it yields anything (nothing is lost, whatever the
        // collection does with a failed `extend`); the real items follow in a second call.
        struct Nothing;
        impl Iterator for Nothing {
            type Item = Leaf;
            fn next(&mut self) -> Option<Leaf> {
                std::panic::resume_unwind(Box::new(crate::interp::Injected))
            }
        }
        let items = |rest: &[Lid]| rest.iter().map(mk).collect::<Vec<Leaf>>().into_iter();
        let data: CL = match ctor {
            Ctor::FromIter | Ctor::NewThenExtend(_) | Ctor::NewThenExtendPanicky(_) => Cont::V(first.iter().map(mk).collect()),
            _ => Cont::build(cont, first.iter().map(mk).collect()),
        };
        let bad = |m: &str| BuildErr::Bad(format!("own target: {}", m));
        // the leaves live on the heap: register their address ranges once the collection is in its final place
        let reg = |members: Vec<&Leaf>, unit: bool| {
            let mut g = sched.lock();
            for (leaf, lid) in members.into_iter().zip(lids) {
                let a = leaf as *const Leaf as usize;
                g.ranges.push((a, a + std::mem::size_of::<Leaf>(), *lid));
                if unit {
                    g.unit_of[*lid] = Some(1000 + lids[0]);
                }
            }
        };
        fn un<T>(r: happylock::poisonable::PoisonResult<T>) -> T {
            match r {
                Ok(x) => x,
                Err(e) => e.into_inner(),
            }
        }
        Ok(match kind {
            OwnKind::Boxed => {
                let mut c: BoxedLockCollection<CL> = match ctor {
                    Ctor::New | Ctor::NewThenExtend(_) | Ctor::NewThenExtendPanicky(_) => BoxedLockCollection::new(data),
                    Ctor::From => BoxedLockCollection::from(data),
                    Ctor::FromIter => data.into_vec().into_iter().collect(),
                    Ctor::TryNew => BoxedLockCollection::try_new(data).ok_or_else(|| bad("try_new rejected owned data"))?,
                    Ctor::Default => BoxedLockCollection::default(),
                };
                if !rest.is_empty() {
                    let b = crate::caps::bound::<BoxedLockCollection<CL>, Leaf>();
                    if panicky {
                        let _ = std::panic::catch_unwind(std::panic::AssertUnwindSafe(|| b.extend_from(&mut c, &mut Nothing)));
                    }
                    b.extend_from(&mut c, &mut items(rest));
                }
                reg(c.child().members(), false);
                if poison {
                    Node::POwnBoxed(Box::new(Poisonable::new(c)))
                } else {
                    Node::OwnBoxed(c)
                }
            }
            OwnKind::Retry => {
                let mut c: RetryingLockCollection<CL> = match ctor {
                    Ctor::New | Ctor::NewThenExtend(_) | Ctor::NewThenExtendPanicky(_) => RetryingLockCollection::new(data),
                    Ctor::From => RetryingLockCollection::from(data),
                    Ctor::FromIter => data.into_vec().into_iter().collect(),
                    Ctor::TryNew => RetryingLockCollection::try_new(data).ok_or_else(|| bad("try_new rejected owned data"))?,
                    Ctor::Default => RetryingLockCollection::default(),
                };
                if !rest.is_empty() {
                    if panicky {
                        let _ = std::panic::catch_unwind(std::panic::AssertUnwindSafe(|| c.extend(Nothing)));
                    }
                    c.extend(items(rest));
                }
                if poison {
                    let mut b = Box::new(Poisonable::new(c));
                    reg(un(b.child_mut()).child().members(), false);
                    Node::POwnRetry(b)
                } else {
                    let b = Box::new(c);
                    reg(b.child().members(), false);
                    Node::OwnRetry(b)
                }
            }
            OwnKind::Owned => {
                let mut c: Unit = match ctor {
                    Ctor::New | Ctor::TryNew | Ctor::NewThenExtend(_) | Ctor::NewThenExtendPanicky(_) => OwnedLockCollection::new(data),
                    Ctor::From => OwnedLockCollection::from(data),
                    Ctor::FromIter => data.into_vec().into_iter().collect(),
                    Ctor::Default => OwnedLockCollection::default(),
                };
                if !rest.is_empty() {
                    if panicky {
                        let _ = std::panic::catch_unwind(std::panic::AssertUnwindSafe(|| c.extend(Nothing)));
                    }
                    c.extend(items(rest));
                }
                if poison {
                    let mut b = Box::new(Poisonable::new(c));
                    reg(un(b.child_mut()).child_mut().members(), true);
                    Node::POwnOwned(b)
                } else {
                    let mut b = Box::new(c);
                    reg(b.child_mut().members(), true);
                    Node::OwnOwned(b)
                }
            }
            OwnKind::Ref => {
                let h = match ctor {
                    Ctor::TryNew => RefHolder::try_new(data).ok_or_else(|| bad("try_new rejected owned data"))?,
                    _ => RefHolder::new_owned(data),
                };
                reg(h.get().child().members(), false);
                Node::OwnRef(h)
            }
        })
    }

    /// address rank of every arena slot (sanity: must be the identity)
    pub fn address_ranks_ok(&self) -> bool {
        let n = self.arena.len();
        let mut prev = 0usize;
        for i in 0..n {
            let a = unsafe { &(*self.arena)[i] as *const SlotObj as usize };
            if a <= prev {
                return false;
            }
            prev = a;
        }
        true
    }

    /// tear everything down (targets in reverse order, then the arena). Payload drops are counted.
    pub fn teardown(mut self) {
        while let Some(t) = self.targets.pop() {
            let p = t.into_inner();
            if !p.is_null() {
                // (a member's destructor may panic: panicky tags)
                let b = unsafe { Box::from_raw(p) };
                let _ = std::panic::catch_unwind(std::panic::AssertUnwindSafe(move || drop(b)));
            }
        }
        let cells = std::mem::take(&mut *self.cells.lock().unwrap());
        let lens = std::mem::take(&mut *self.cell_lens.lock().unwrap());
        for (p, n) in cells.into_iter().zip(lens) {
            drop(unsafe { Box::from_raw(std::ptr::slice_from_raw_parts_mut(p as *mut &'static Leaf, n)) });
        }
        while let Some(d) = self.datas.pop() {
            drop(unsafe { Box::from_raw(d) });
        }
        drop(unsafe { Box::from_raw(self.arena) });
        self.arena = std::ptr::slice_from_raw_parts_mut(std::ptr::NonNull::<SlotObj>::dangling().as_ptr(), 0);
    }
}
