//! Seeded generators: world shapes, memory placement, programs, run configuration.
//! One integer (the per-run seed) decides everything.

use crate::rng::Rng;
use crate::sched::{FaultPlan, Policy, RunCfg, Strategy};
use crate::shape::{ContKind, LeafKind};
use crate::spec::*;

#[derive(Clone, Debug)]
pub struct Params {
    pub leaves: (usize, usize),
    pub leaf_kinds: Vec<LeafKind>,
    pub all_rw_pct: u32,
    pub unit_pct: u32,
    pub max_units: usize,
    pub targets: (usize, usize),
    pub target_elems: (usize, usize),
    pub coll_kinds: Vec<CollKind>,
    pub cont_kinds: Vec<ContKind>,
    pub single_pct: u32,
    pub nest_pct: u32,
    pub max_depth: usize,
    pub poison_coll_pct: u32,
    pub shared_ref_pct: u32,
    pub threads: (usize, usize),
    pub acqs: (usize, usize),
    pub apis: Vec<Api>,
    pub body_ops: (usize, usize),
    pub yield_pct: u32,
    pub keyprobe_pct: u32,
    pub panic_pct: u32,
    pub nonacq_pct: u32,
    pub rebuild_pct: u32,
    pub lent_pct: u32,
    pub unlock_pct: u32,
    pub try_refuse: Vec<u8>,
    pub opposite_pairs: bool,
    pub max_steps: u64,
}

impl Params {
    pub fn base() -> Params {
        Params {
            leaves: (2, 5),
            leaf_kinds: LeafKind::ALL.to_vec(),
            all_rw_pct: 35,
            unit_pct: 30,
            max_units: 2,
            targets: (2, 4),
            target_elems: (1, 4),
            coll_kinds: vec![CollKind::Boxed, CollKind::Ref, CollKind::Retry],
            cont_kinds: ContKind::ALL.to_vec(),
            single_pct: 20,
            nest_pct: 25,
            max_depth: 2,
            poison_coll_pct: 10,
            shared_ref_pct: 10,
            threads: (2, 4),
            acqs: (1, 3),
            apis: Api::ALL.to_vec(),
            body_ops: (0, 3),
            yield_pct: 20,
            keyprobe_pct: 5,
            panic_pct: 0,
            nonacq_pct: 5,
            rebuild_pct: 15,
            lent_pct: 50,
            unlock_pct: 40,
            try_refuse: vec![0, 0, 10, 20],
            opposite_pairs: true,
            max_steps: 4000,
        }
    }
}

/// swarm: switch a random subset of a vocabulary off (never all of it)
fn swarm<T: Clone>(rng: &mut Rng, xs: &[T]) -> Vec<T> {
    if xs.len() <= 1 || rng.chance(1, 2) {
        return xs.to_vec();
    }
    let mut v: Vec<T> = xs.iter().filter(|_| rng.chance(2, 3)).cloned().collect();
    if v.is_empty() {
        v.push(rng.pick(xs).clone());
    }
    v
}

pub struct Gen<'p> {
    pub rng: Rng,
    pub p: &'p Params,
    coll_kinds: Vec<CollKind>,
    cont_kinds: Vec<ContKind>,
    apis: Vec<Api>,
}

impl<'p> Gen<'p> {
    pub fn new(seed: u64, p: &'p Params) -> Gen<'p> {
        let mut rng = Rng::new(seed);
        let coll_kinds = swarm(&mut rng, &p.coll_kinds);
        let cont_kinds = swarm(&mut rng, &p.cont_kinds);
        let apis = swarm(&mut rng, &p.apis);
        Gen { rng, p, coll_kinds, cont_kinds, apis }
    }

    fn r(&mut self, (lo, hi): (usize, usize)) -> usize {
        self.rng.range(lo, hi)
    }

    pub fn world_base(&mut self) -> WorldSpec {
        let n = self.r(self.p.leaves);
        let all_rw = self.rng.chance(self.p.all_rw_pct, 100);
        let kinds: Vec<LeafKind> = if all_rw { self.p.leaf_kinds.iter().copied().filter(|k| k.is_rw()).collect() } else { self.p.leaf_kinds.clone() };
        let kinds = if kinds.is_empty() { self.p.leaf_kinds.clone() } else { swarm(&mut self.rng, &kinds) };
        let leaves: Vec<LeafKind> = (0..n).map(|_| *self.rng.pick(&kinds)).collect();
        // owned units over disjoint leaf subsets
        let mut units: Vec<UnitSpec> = Vec::new();
        let mut free: Vec<usize> = (0..n).collect();
        self.rng.shuffle(&mut free);
        while units.len() < self.p.max_units && free.len() >= 2 && self.rng.chance(self.p.unit_pct, 100) {
            let k = self.rng.range(0, free.len().min(3));
            let ls: Vec<usize> = free.drain(..k).collect();
            let cont = self.pick_cont(ls.len());
            units.push(UnitSpec { cont, leaves: ls });
        }
        let mut slots: Vec<Slot> = free.iter().map(|l| Slot::Leaf(*l)).collect();
        for u in 0..units.len() {
            slots.push(Slot::Unit(u));
        }
        self.rng.shuffle(&mut slots);
        WorldSpec { leaves, units, slots, targets: Vec::new(), gates: 0 }
    }

    pub fn pick_cont(&mut self, n: usize) -> ContKind {
        let ok: Vec<ContKind> = self.cont_kinds.iter().copied().filter(|c| c.supports(n)).collect();
        if ok.is_empty() {
            ContKind::Vec
        } else {
            *self.rng.pick(&ok)
        }
    }

    pub fn elems_of(w: &WorldSpec) -> Vec<Elem> {
        let mut v = Vec::new();
        for s in &w.slots {
            match s {
                Slot::Leaf(l) => v.push(Elem::Leaf(*l)),
                Slot::Unit(u) => v.push(Elem::Unit(*u)),
            }
        }
        v.sort();
        v
    }

    fn elem_spec(e: &Elem) -> TSpec {
        match e {
            Elem::Leaf(l) => TSpec::Leaf(*l),
            Elem::Unit(u) => TSpec::Unit(*u),
        }
    }

    /// a duplicate-free target over exactly `elems` (in a random arrangement)
    pub fn target_over(&mut self, w: &WorldSpec, elems: &[Elem], depth: usize, allow_single: bool) -> TSpec {
        if elems.len() == 1 && allow_single && self.rng.chance(self.p.single_pct.max(1), 100) {
            return Self::elem_spec(&elems[0]);
        }
        let mut es: Vec<Elem> = elems.to_vec();
        self.rng.shuffle(&mut es);
        let mut members: Vec<TSpec> = Vec::new();
        let mut i = 0;
        while i < es.len() {
            let remaining = es.len() - i;
            if depth < self.p.max_depth && self.rng.chance(self.p.nest_pct, 100) {
                let k = self.rng.range(1, remaining.min(3));
                let sub: Vec<Elem> = es[i..i + k].to_vec();
                i += k;
                // try to reference an existing shared target with exactly these elements
                if self.rng.chance(self.p.shared_ref_pct, 100) {
                    let mut want = sub.clone();
                    want.sort();
                    let found = (0..w.targets.len()).find(|&t| {
                        let mut e = w.elems(&w.targets[t]);
                        e.sort();
                        e == want && matches!(w.targets[t], TSpec::Coll { .. })
                    });
                    if let Some(t) = found {
                        members.push(TSpec::Shared(t));
                        continue;
                    }
                }
                members.push(self.target_over(w, &sub, depth + 1, false));
            } else {
                members.push(Self::elem_spec(&es[i]));
                i += 1;
            }
        }
        // a few empty nested collections / empty members are legal too
        let kind = *self.rng.pick(&self.coll_kinds.clone());
        let cont = self.pick_cont(members.len());
        let poison = kind != CollKind::Ref && self.rng.chance(self.p.poison_coll_pct, 100);
        TSpec::Coll { kind, cont, members, poison }
    }

    pub fn random_subset(&mut self, all: &[Elem], (lo, hi): (usize, usize)) -> Vec<Elem> {
        let mut v = all.to_vec();
        self.rng.shuffle(&mut v);
        let k = self.rng.range(lo.min(v.len()), hi.min(v.len()));
        v.truncate(k);
        v
    }

    pub fn add_targets(&mut self, w: &mut WorldSpec) {
        let all = Self::elems_of(w);
        let nt = self.r(self.p.targets);
        for i in 0..nt {
            let es = if self.p.opposite_pairs && i % 2 == 1 && self.rng.chance(60, 100) {
                // same elements as the previous target, another arrangement / kind
                w.elems(&w.targets[i - 1])
            } else {
                self.random_subset(&all, self.p.target_elems)
            };
            let es = if es.is_empty() && !all.is_empty() && self.rng.chance(4, 5) { vec![all[0].clone()] } else { es };
            let t = self.target_over(w, &es, 1, true);
            w.targets.push(t);
        }
    }

    pub fn body(&mut self, w: &WorldSpec, t: usize, api: Api) -> Vec<BodyOp> {
        let nflat = w.flatten(&w.targets[t], Some(t)).len();
        let n = self.r(self.p.body_ops);
        let mut ops = Vec::new();
        for _ in 0..n {
            if self.rng.chance(self.p.yield_pct, 100) {
                ops.push(BodyOp::Yield);
            } else if self.rng.chance(self.p.keyprobe_pct, 100) {
                ops.push(BodyOp::KeyProbe);
            } else if self.rng.chance(self.p.nonacq_pct, 100) && !w.targets.is_empty() {
                let tt = self.rng.below(w.targets.len());
                let op = *self.rng.pick(&[NonAcqOp::Debug, NonAcqOp::Accessors, NonAcqOp::IsPoisoned, NonAcqOp::Construct]);
                ops.push(BodyOp::NonAcq(op, tt));
            } else if nflat > 0 {
                let i = self.rng.below(nflat);
                if api.is_read() || self.rng.chance(1, 2) {
                    ops.push(BodyOp::Read(i));
                } else {
                    ops.push(BodyOp::Write(i));
                }
            }
        }
        if self.p.panic_pct > 0 && self.rng.chance(self.p.panic_pct, 100) {
            let pos = self.rng.range(0, ops.len());
            ops.insert(pos, BodyOp::Panic);
        }
        ops
    }

    pub fn acq(&mut self, w: &WorldSpec, t: usize) -> Acq {
        let rw = w.all_rw(&w.targets[t]);
        let apis: Vec<Api> = self.apis.iter().copied().filter(|a| rw || !a.is_read()).collect();
        let api = if apis.is_empty() { Api::Lock } else { *self.rng.pick(&apis) };
        let body = self.body(w, t, api);
        Acq {
            target: t,
            rebuild: self.rng.chance(self.p.rebuild_pct, 100),
            api,
            lent_key: api.is_scoped() && self.rng.chance(self.p.lent_pct, 100),
            body,
            release: if self.rng.chance(self.p.unlock_pct, 100) { Release::Unlock } else { Release::Drop },
        }
    }

    pub fn program(&mut self, w: &WorldSpec) -> Program {
        let nt = self.r(self.p.threads);
        let mut threads = Vec::new();
        for _ in 0..nt {
            let na = self.r(self.p.acqs);
            let mut steps = Vec::new();
            for _ in 0..na {
                if w.targets.is_empty() {
                    break;
                }
                let t = self.rng.below(w.targets.len());
                steps.push(Step::Acquire(self.acq(w, t)));
                if self.rng.chance(self.p.nonacq_pct, 100) {
                    let tt = self.rng.below(w.targets.len());
                    let op = *self.rng.pick(&[NonAcqOp::Debug, NonAcqOp::Accessors, NonAcqOp::IsPoisoned, NonAcqOp::ClearPoison, NonAcqOp::Construct]);
                    steps.push(Step::NonAcq(op, tt));
                }
            }
            threads.push(steps);
        }
        Program { threads }
    }

    pub fn cfg(&mut self, est_len: u16) -> RunCfg {
        let policy = match self.rng.below(3) {
            0 => Policy::ReaderPref,
            1 => Policy::WriterPref,
            _ => Policy::Mixed(self.rng.next() as u32),
        };
        let strategy = match self.rng.below(8) {
            0 | 1 => Strategy::Random,
            2 => Strategy::Sticky(50),
            3 => Strategy::Sticky(80),
            4 => Strategy::Sticky(95),
            5 => Strategy::Pct(self.rng.range(1, 3) as u8, est_len),
            6 => Strategy::Pct(2, est_len / 2 + 1),
            _ => Strategy::RunToBlock,
        };
        let refuse = *self.rng.pick(&self.p.try_refuse.clone());
        RunCfg {
            policy,
            strategy,
            sched_seed: self.rng.next(),
            max_steps: self.p.max_steps,
            fair_after: self.p.max_steps / 2,
            faults: FaultPlan { oneshots: vec![], evil: vec![], try_refuse_pct: refuse },
            replay: None,
            record_log: false,
        }
    }
}

pub fn generate(profile: &str, seed: u64) -> Scenario {
    match profile {
        _ => gen_general(profile, seed, &Params::base()),
    }
}

pub fn gen_general(profile: &str, seed: u64, p: &Params) -> Scenario {
    let mut g = Gen::new(seed, p);
    let mut w = g.world_base();
    g.add_targets(&mut w);
    let program = g.program(&w);
    let cfg = g.cfg(60);
    Scenario { world: w, program, cfg, profile: profile.to_string() }
}
