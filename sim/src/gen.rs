//! Seeded generators: world shapes, memory placement, programs, run configuration.
//! One integer (the per-run seed) decides everything.

use crate::rng::Rng;
use crate::sched::{FaultPlan, Policy, RunCfg, Strategy};
use crate::shape::{ContKind, LeafKind};
use crate::spec::*;

#[derive(Clone, Debug)]
pub struct Params {
    pub leaves: (usize, usize),
    pub leaf_kinds: Vec<LeafKind>,
    pub all_rw_pct: u32,
    pub unit_pct: u32,
    pub max_units: usize,
    pub targets: (usize, usize),
    pub target_elems: (usize, usize),
    pub coll_kinds: Vec<CollKind>,
    pub cont_kinds: Vec<ContKind>,
    pub single_pct: u32,
    pub nest_pct: u32,
    pub max_depth: usize,
    pub poison_coll_pct: u32,
    pub shared_ref_pct: u32,
    pub threads: (usize, usize),
    pub acqs: (usize, usize),
    pub apis: Vec<Api>,
    pub body_ops: (usize, usize),
    pub yield_pct: u32,
    pub keyprobe_pct: u32,
    pub panic_pct: u32,
    pub nonacq_pct: u32,
    pub rebuild_pct: u32,
    pub lent_pct: u32,
    pub unlock_pct: u32,
    pub try_refuse: Vec<u8>,
    pub opposite_pairs: bool,
    pub max_steps: u64,
    pub data_pct: u32,
    pub group_pct: u32,
    pub mutrefs_pct: u32,
    /// collections over the library's own `Vec<&lock>` / `Box<[&lock]>` impls
    pub slice_pct: u32,
    /// per acquisition: use the guard / data in ways other than dereferencing it
    pub misuse_pct: u32,
    /// per scoped acquisition: the closure hands its data back to the caller
    pub escape_pct: u32,
}

/// deeper bounds for the thorough tier (set once from the command line)
pub static THOROUGH: std::sync::atomic::AtomicBool = std::sync::atomic::AtomicBool::new(false);

impl Params {
    pub fn base() -> Params {
        let mut p = Params::base_quick();
        if THOROUGH.load(std::sync::atomic::Ordering::Relaxed) {
            p.leaves = (2, 6);
            p.target_elems = (1, 5);
            p.targets = (2, 5);
            p.acqs = (1, 4);
            p.max_depth = 3;
            p.body_ops = (0, 4);
            p.max_units = 3;
        }
        p
    }

    pub fn base_quick() -> Params {
        Params {
            leaves: (2, 5),
            leaf_kinds: { let mut k = LeafKind::ALL.to_vec(); k.push(LeafKind::ZM); k.push(LeafKind::ZR); k },
            all_rw_pct: 35,
            unit_pct: 30,
            max_units: 2,
            targets: (2, 4),
            target_elems: (1, 4),
            coll_kinds: vec![CollKind::Boxed, CollKind::Ref, CollKind::Retry],
            cont_kinds: ContKind::ALL.to_vec(),
            single_pct: 20,
            nest_pct: 25,
            max_depth: 2,
            poison_coll_pct: 10,
            shared_ref_pct: 10,
            threads: (2, 4),
            acqs: (1, 3),
            apis: Api::ALL.to_vec(),
            body_ops: (0, 3),
            yield_pct: 20,
            keyprobe_pct: 5,
            panic_pct: 0,
            nonacq_pct: 5,
            rebuild_pct: 15,
            lent_pct: 50,
            unlock_pct: 40,
            try_refuse: vec![0, 0, 10, 20],
            opposite_pairs: true,
            max_steps: 4000,
            data_pct: 30,
            group_pct: 30,
            mutrefs_pct: 12,
            slice_pct: 10,
            misuse_pct: 6,
            escape_pct: 0,
        }
    }
}

/// swarm: switch a random subset of a vocabulary off (never all of it)
fn swarm<T: Clone>(rng: &mut Rng, xs: &[T]) -> Vec<T> {
    if xs.len() <= 1 || rng.chance(1, 2) {
        return xs.to_vec();
    }
    let mut v: Vec<T> = xs.iter().filter(|_| rng.chance(2, 3)).cloned().collect();
    if v.is_empty() {
        v.push(rng.pick(xs).clone());
    }
    v
}

pub struct Gen<'p> {
    pub rng: Rng,
    pub p: &'p Params,
    coll_kinds: Vec<CollKind>,
    cont_kinds: Vec<ContKind>,
    apis: Vec<Api>,
}

impl<'p> Gen<'p> {
    pub fn new(seed: u64, p: &'p Params) -> Gen<'p> {
        let mut rng = Rng::new(seed);
        let coll_kinds = swarm(&mut rng, &p.coll_kinds);
        let cont_kinds = swarm(&mut rng, &p.cont_kinds);
        let apis = swarm(&mut rng, &p.apis);
        Gen { rng, p, coll_kinds, cont_kinds, apis }
    }

    fn r(&mut self, (lo, hi): (usize, usize)) -> usize {
        self.rng.range(lo, hi)
    }

    pub fn world_base(&mut self) -> WorldSpec {
        let n = self.r(self.p.leaves);
        let all_rw = self.rng.chance(self.p.all_rw_pct, 100);
        let kinds: Vec<LeafKind> = if all_rw { self.p.leaf_kinds.iter().copied().filter(|k| k.is_rw()).collect() } else { self.p.leaf_kinds.clone() };
        let kinds = if kinds.is_empty() { self.p.leaf_kinds.clone() } else { swarm(&mut self.rng, &kinds) };
        let leaves: Vec<LeafKind> = (0..n).map(|_| *self.rng.pick(&kinds)).collect();
        // owned units over disjoint leaf subsets
        let mut units: Vec<UnitSpec> = Vec::new();
        let mut borrowed: Vec<usize> = Vec::new();
        let mut free: Vec<usize> = (0..n).collect();
        self.rng.shuffle(&mut free);
        while units.len() < self.p.max_units && free.len() >= 2 && self.rng.chance(self.p.unit_pct, 100) {
            let k = self.rng.range(0, free.len().min(3));
            let mut ls: Vec<usize> = free.drain(..k).collect();
            let cont = self.pick_cont(ls.len());
            // by reference: the leaves keep arena slots of their own, any listing order
            let by_ref = !ls.is_empty() && self.rng.chance(40, 100);
            if by_ref {
                self.rng.shuffle(&mut ls);
                borrowed.extend(ls.iter().copied());
            }
            units.push(UnitSpec { cont, leaves: ls, by_ref });
        }
        let mut slots: Vec<Slot> = free.iter().chain(borrowed.iter()).map(|l| Slot::Leaf(*l)).collect();
        for u in 0..units.len() {
            slots.push(Slot::Unit(u));
        }
        self.rng.shuffle(&mut slots);
        // owned data: `&mut` borrows of some arena leaves, listed in any order
        let mut datas: Vec<UnitSpec> = Vec::new();
        if free.len() >= 2 && self.rng.chance(self.p.data_pct, 100) {
            let k = self.rng.range(2, free.len().min(3));
            let mut ls: Vec<usize> = free.iter().copied().take(k).collect();
            self.rng.shuffle(&mut ls);
            let cont = self.pick_cont(ls.len());
            datas.push(UnitSpec { cont, leaves: ls, by_ref: true });
        }
        WorldSpec { leaves, units, slots, targets: Vec::new(), datas, gates: 0, tags: 0, panicky_tags: vec![] }
    }

    pub fn pick_cont(&mut self, n: usize) -> ContKind {
        let ok: Vec<ContKind> = self.cont_kinds.iter().copied().filter(|c| c.supports(n)).collect();
        if ok.is_empty() {
            ContKind::Vec
        } else {
            *self.rng.pick(&ok)
        }
    }

    pub fn elems_of(w: &WorldSpec) -> Vec<Elem> {
        let mut v = Vec::new();
        let borrowed: Vec<usize> = w.datas.iter().chain(w.units.iter().filter(|u| u.by_ref)).flat_map(|d| d.leaves.iter().copied()).collect();
        for s in &w.slots {
            match s {
                Slot::Leaf(l) if borrowed.contains(l) => {}
                Slot::Leaf(l) => v.push(Elem::Leaf(*l)),
                Slot::Unit(u) => v.push(Elem::Unit(*u)),
            }
        }
        v.sort();
        v
    }

    fn elem_spec(e: &Elem) -> TSpec {
        match e {
            Elem::Leaf(l) => TSpec::Leaf(*l),
            Elem::Unit(u) => TSpec::Unit(*u),
        }
    }

    /// a duplicate-free target over exactly `elems` (in a random arrangement)
    pub fn target_over(&mut self, w: &WorldSpec, elems: &[Elem], depth: usize, allow_single: bool) -> TSpec {
        let standalone = |e: &Elem| match e {
            Elem::Leaf(l) => w.leaves[*l].standalone(),
            Elem::Unit(_) => true,
        };
        if elems.len() == 1 && allow_single && standalone(&elems[0]) && self.rng.chance(self.p.single_pct.max(1), 100) {
            return Self::elem_spec(&elems[0]);
        }
        let mut es: Vec<Elem> = elems.to_vec();
        self.rng.shuffle(&mut es);
        let mut members: Vec<TSpec> = Vec::new();
        let mut i = 0;
        while i < es.len() {
            let remaining = es.len() - i;
            if depth < self.p.max_depth && self.rng.chance(self.p.nest_pct, 100) {
                let k = self.rng.range(1, remaining.min(3));
                let sub: Vec<Elem> = es[i..i + k].to_vec();
                i += k;
                // try to reference an existing shared target with exactly these elements
                if self.rng.chance(self.p.shared_ref_pct, 100) {
                    let mut want = sub.clone();
                    want.sort();
                    let found = (0..w.targets.len()).find(|&t| {
                        let mut e = w.elems(&w.targets[t]);
                        e.sort();
                        e == want && matches!(w.targets[t], TSpec::Coll { .. })
                    });
                    if let Some(t) = found {
                        members.push(TSpec::Shared(t));
                        continue;
                    }
                }
                if self.rng.chance(self.p.group_pct, 100) {
                    // a bare container as a member: (A, Vec<B>), [Vec<_>; 2], ...
                    let mut ms: Vec<TSpec> = sub.iter().map(Self::elem_spec).collect();
                    self.rng.shuffle(&mut ms);
                    let cont = self.pick_cont(ms.len());
                    members.push(TSpec::Group { cont, members: ms });
                } else {
                    members.push(self.target_over(w, &sub, depth + 1, false));
                }
            } else {
                members.push(Self::elem_spec(&es[i]));
                i += 1;
            }
        }
        // a few empty nested collections / empty members are legal too
        let kind = *self.rng.pick(&self.coll_kinds.clone());
        let cont = self.pick_cont(members.len());
        let poison = kind != CollKind::Ref && self.rng.chance(self.p.poison_coll_pct, 100);
        TSpec::Coll { kind, cont, members, poison }
    }

    pub fn random_subset(&mut self, all: &[Elem], (lo, hi): (usize, usize)) -> Vec<Elem> {
        let mut v = all.to_vec();
        self.rng.shuffle(&mut v);
        let k = self.rng.range(lo.min(v.len()), hi.min(v.len()));
        v.truncate(k);
        v
    }

    pub fn add_targets(&mut self, w: &mut WorldSpec) {
        // several collections over each piece of owned data, built with new / new_ref / From
        for d in 0..w.datas.len() {
            for _ in 0..self.rng.range(2, 3) {
                let kind = *self.rng.pick(&[CollKind::Boxed, CollKind::Ref, CollKind::Ref, CollKind::Retry]);
                let poison = kind != CollKind::Ref && self.rng.chance(self.p.poison_coll_pct, 100);
                {
                    let unchecked = self.rng.chance(1, 5);
                    w.targets.push(TSpec::OnData { data: d, kind, from: !unchecked && kind == CollKind::Ref && self.rng.chance(1, 3), poison, unchecked });
                }
            }
        }
        let all = Self::elems_of(w);
        // a collection over `&mut &lock` members (shared references borrowed mutably), sometimes
        // with a repeat: the compiler must route it through the checked constructors
        let free: Vec<usize> = all.iter().filter_map(|e| if let Elem::Leaf(l) = e { Some(*l) } else { None }).collect();
        if !free.is_empty() && self.rng.chance(self.p.mutrefs_pct, 100) {
            let mut ms: Vec<usize> = Vec::new();
            for _ in 0..self.rng.range(1, 3) {
                ms.push(*self.rng.pick(&free));
            }
            if self.rng.chance(2, 3) {
                ms.sort();
                ms.dedup();
                self.rng.shuffle(&mut ms);
            }
            let kind = *self.rng.pick(&[OwnKind::Boxed, OwnKind::Retry, OwnKind::Ref]);
            let cont = self.pick_cont(ms.len());
            w.targets.push(TSpec::MutRefs { kind, cont, members: ms });
        }
        if !free.is_empty() && self.rng.chance(self.p.slice_pct, 100) {
            let mut ms: Vec<usize> = Vec::new();
            for _ in 0..self.rng.range(1, 4) {
                ms.push(*self.rng.pick(&free));
            }
            if self.rng.chance(5, 6) {
                ms.sort();
                ms.dedup();
                self.rng.shuffle(&mut ms);
            }
            let (kind, boxed, poison) = *self.rng.pick(&[(CollKind::Boxed, false, false), (CollKind::Boxed, true, false), (CollKind::Retry, false, false), (CollKind::Ref, true, false), (CollKind::Boxed, false, true), (CollKind::Retry, true, true)]);
            // plain arrays as children where the length fits
            let array = !poison && ((kind == CollKind::Boxed && ms.len() == 2) || (kind == CollKind::Retry && ms.len() == 3)) && self.rng.chance(1, 2);
            w.targets.push(TSpec::Slice { kind, boxed, members: ms, poison, array });
        }
        // what an owned collection's members could be reached through, if anything (nothing, normally)
        for u in 0..w.units.len() {
            if w.units[u].by_ref && w.units[u].leaves.len() >= 2 && self.rng.chance(self.p.slice_pct * 2, 100) {
                w.targets.push(TSpec::Exposed { unit: u });
            }
        }
        let nt = self.r(self.p.targets);
        let base_idx = w.targets.len();
        for i in 0..nt {
            let es = if self.p.opposite_pairs && i % 2 == 1 && self.rng.chance(60, 100) {
                // same elements as the previous target, another arrangement / kind
                w.elems(&w.targets[base_idx + i - 1])
            } else {
                self.random_subset(&all, self.p.target_elems)
            };
            let es = if es.is_empty() && !all.is_empty() && self.rng.chance(4, 5) { vec![all[0].clone()] } else { es };
            let t = self.target_over(w, &es, 1, true);
            w.targets.push(t);
        }
    }

    pub fn body(&mut self, w: &WorldSpec, t: usize, api: Api) -> Vec<BodyOp> {
        let nflat = w.flatten(&w.targets[t], Some(t)).len();
        let n = self.r(self.p.body_ops);
        let mut ops = Vec::new();
        for _ in 0..n {
            if self.rng.chance(self.p.yield_pct, 100) {
                ops.push(BodyOp::Yield);
            } else if self.rng.chance(self.p.keyprobe_pct, 100) {
                ops.push(BodyOp::KeyProbe);
            } else if self.rng.chance(self.p.nonacq_pct, 100) && !w.targets.is_empty() {
                let tt = self.rng.below(w.targets.len());
                let lim = self.rng.below(120) as u16;
                let op = *self.rng.pick(&[NonAcqOp::Debug, NonAcqOp::DebugPretty, NonAcqOp::DebugLimited(lim), NonAcqOp::DebugPayloadErr, NonAcqOp::DebugPayloadPanic, NonAcqOp::Accessors, NonAcqOp::IsPoisoned, NonAcqOp::ClearPoison, NonAcqOp::ClearPoison, NonAcqOp::Construct]);
                ops.push(BodyOp::NonAcq(op, tt));
            } else if nflat > 0 {
                let i = self.rng.below(nflat);
                if api.is_read() || self.rng.chance(1, 2) {
                    ops.push(BodyOp::Read(i));
                } else {
                    ops.push(BodyOp::Write(i));
                }
            }
        }
        if self.rng.chance(self.p.misuse_pct, 100) {
            let slice = matches!(w.targets[t], TSpec::Slice { .. });
            let op = if slice && !api.is_scoped() && self.rng.chance(2, 3) {
                Some(BodyOp::StealHolds)
            } else if api.is_read() && nflat > 0 {
                Some(BodyOp::AbuseShared(self.rng.below(nflat)))
            } else {
                None
            };
            if let Some(op) = op {
                let pos = self.rng.range(0, ops.len());
                ops.insert(pos, op);
            }
        }
        if api.is_scoped() && self.p.panic_pct > 0 && self.rng.chance(3, 100) {
            // the closure owns a value whose destructor panics (instead of a panic in the body)
            ops.push(BodyOp::ArmBomb);
            return ops;
        }
        if api.is_scoped() && nflat > 0 && self.rng.chance(self.p.escape_pct, 1000) {
            ops.push(BodyOp::EscapeData(self.rng.below(nflat)));
        }
        if self.p.panic_pct > 0 && self.rng.chance(self.p.panic_pct, 100) {
            let pos = self.rng.range(0, ops.len());
            ops.insert(pos, BodyOp::Panic);
        }
        ops
    }

    pub fn acq(&mut self, w: &WorldSpec, t: usize) -> Acq {
        let rw = w.all_rw(&w.targets[t]);
        let apis: Vec<Api> = self.apis.iter().copied().filter(|a| rw || !a.is_read()).collect();
        let api = if apis.is_empty() { Api::Lock } else { *self.rng.pick(&apis) };
        let body = self.body(w, t, api);
        let rebuild = self.rng.chance(self.p.rebuild_pct, 100);
        let mutate = rebuild
            && matches!(&w.targets[t], TSpec::Coll { kind: CollKind::Retry, cont: ContKind::Vec, members, poison: false } if !members.is_empty() && matches!(members[0], TSpec::Leaf(_)))
            && self.rng.chance(1, 2);
        Acq {
            target: t,
            rebuild,
            mutate,
            api,
            lent_key: api.is_scoped() && self.rng.chance(self.p.lent_pct, 100),
            body,
            release: if self.rng.chance(self.p.unlock_pct, 100) {
                if self.rng.chance(1, 4) {
                    Release::UnlockInDrop
                } else {
                    Release::Unlock
                }
            } else if !api.is_scoped() && self.rng.chance(self.p.misuse_pct, 200) {
                Release::TakeApart
            } else {
                Release::Drop
            },
        }
    }

    pub fn program(&mut self, w: &WorldSpec) -> Program {
        let nt = self.r(self.p.threads);
        let mut threads = Vec::new();
        for _ in 0..nt {
            let na = self.r(self.p.acqs);
            let mut steps = Vec::new();
            for _ in 0..na {
                if w.targets.is_empty() {
                    break;
                }
                let t = self.rng.below(w.targets.len());
                steps.push(Step::Acquire(self.acq(w, t)));
                if self.rng.chance(self.p.nonacq_pct, 100) {
                    let tt = self.rng.below(w.targets.len());
                    let lim = self.rng.below(120) as u16;
                let op = *self.rng.pick(&[NonAcqOp::Debug, NonAcqOp::DebugPretty, NonAcqOp::DebugLimited(lim), NonAcqOp::DebugPayloadErr, NonAcqOp::DebugPayloadPanic, NonAcqOp::Accessors, NonAcqOp::IsPoisoned, NonAcqOp::ClearPoison, NonAcqOp::Construct]);
                    steps.push(Step::NonAcq(op, tt));
                }
            }
            threads.push(steps);
        }
        Program { threads }
    }

    pub fn cfg(&mut self, est_len: u16) -> RunCfg {
        let policy = match self.rng.below(3) {
            0 => Policy::ReaderPref,
            1 => Policy::WriterPref,
            _ => Policy::Mixed(self.rng.next() as u32),
        };
        let strategy = match self.rng.below(8) {
            0 | 1 => Strategy::Random,
            2 => Strategy::Sticky(50),
            3 => Strategy::Sticky(80),
            4 => Strategy::Sticky(95),
            5 => Strategy::Pct(self.rng.range(1, 3) as u8, est_len),
            6 => Strategy::Pct(2, est_len / 2 + 1),
            _ => Strategy::RunToBlock,
        };
        let refuse = *self.rng.pick(&self.p.try_refuse.clone());
        RunCfg {
            policy,
            strategy,
            sched_seed: self.rng.next(),
            max_steps: self.p.max_steps,
            // bounded liveness: from this step on the schedule is fair run-to-block with every
            // fault off; some runs switch early so that the switch lands inside contention
            fair_after: *self.rng.pick(&[30, 120, self.p.max_steps / 2, self.p.max_steps / 2]),
            faults: FaultPlan { oneshots: vec![], evil: vec![], try_refuse_pct: refuse },
            replay: None,
            record_log: false,
        }
    }
}


pub fn generate(profile: &str, seed: u64) -> Scenario {
    if matches!(profile, "C03" | "C05" | "C06") && Rng::new(seed ^ 0x6A7D).chance(3, 100) {
        return gen_guard_travel(profile, seed);
    }
    if matches!(profile, "C13" | "C04") && Rng::new(seed ^ 0x7B1C).chance(1, 100) {
        return gen_try_big(profile, seed);
    }
    if matches!(profile, "C01" | "C07" | "C08") && Rng::new(seed ^ 0xACC0).chance(2, 100) {
        return gen_guard_accessor(profile, seed);
    }
    match profile {
        "C06" => gen_c06(seed),
        "C07" => gen_c07(seed),
        "C08" => gen_c08(seed),
        "C09" => gen_c09(seed),
        "C13" => gen_quiescent(seed, false),
        "C17" => gen_quiescent(seed, true),
        "C10" => gen_panics(profile, seed, true),
        "C11" => gen_panics(profile, seed, false),
        "C12" => gen_c12(seed),
        "C16" => gen_c16(seed),
        "C03" => gen_c03(seed),
        "C05" => {
            // release paths include the unwind of a panicking section
            let mut p = Params::base();
            p.panic_pct = 8;
            if Rng::new(seed ^ 0x55).chance(1, 4) {
                p.threads = (1, 1);
                p.acqs = (3, 8);
            }
            gen_general(profile, seed, &p)
        }
        "C01" => {
            // one thread alone is part of the statement: a quarter of the runs are sequential
            let mut p = Params::base();
            let mut rng = Rng::new(seed ^ 0x11);
            if rng.chance(1, 4) {
                p.threads = (1, 1);
                p.acqs = (3, 8);
            }
            let mut scn = gen_general(profile, seed, &p);
            // keys must stay on their thread: now and then one thread tries to give its key away
            // and another one, inside a hold, uses whatever key it was given on a lock it holds
            if scn.program.threads.len() >= 2 && rng.chance(4, 100) {
                scn.program.threads[0].insert(0, Step::Key(KeyOp::Send));
                for th in scn.program.threads.iter_mut().skip(1) {
                    for st in th.iter_mut() {
                        if let Step::Acquire(a) = st {
                            let n = scn.world.flatten(&scn.world.targets[a.target], None).len();
                            if n > 0 && !a.api.is_try() {
                                a.body.insert(0, BodyOp::UseForeignKey(rng.below(n)));
                                a.body.insert(0, BodyOp::Yield);
                            }
                        }
                    }
                }
            }
            scn
        }
        "C02" => {
            // now and then a scoped closure returns the data it was given
            let mut p = Params::base();
            p.escape_pct = 8;
            gen_general(profile, seed, &p)
        }
        _ => gen_general(profile, seed, &Params::base()),
    }
}

/// Guards must stay with the thread that acquired them. Two threads hold collections over
/// disjoint locks of one kind; one lends `&mut` of a member guard, the other swaps it with one
/// of its own (both are no-ops unless member guards are Send). Or: a thread sends its whole
/// guard away and another thread drops it (no-op unless guards, key and all, are Send).
pub fn gen_guard_travel(profile: &str, seed: u64) -> Scenario {
    let mut rng = Rng::new(seed ^ 0x7A4E);
    let p = Params::base();
    let mut g = Gen::new(seed, &p);
    let rw = rng.chance(1, 2);
    let kind = if rw { *rng.pick(&[LeafKind::R, LeafKind::R, LeafKind::PR]) } else { *rng.pick(&[LeafKind::M, LeafKind::M, LeafKind::PM]) };
    let na = rng.range(1, 3);
    let nb = rng.range(1, 3);
    let leaves: Vec<LeafKind> = (0..na + nb).map(|_| kind).collect();
    let mut slots: Vec<Slot> = (0..na + nb).map(Slot::Leaf).collect();
    rng.shuffle(&mut slots);
    let mk = |rng: &mut Rng, g: &mut Gen, ls: Vec<usize>| -> TSpec {
        if rng.chance(1, 4) {
            let (kind, boxed, poison) = *rng.pick(&[(CollKind::Boxed, false, false), (CollKind::Boxed, true, false), (CollKind::Retry, false, false), (CollKind::Ref, true, false), (CollKind::Boxed, false, true)]);
            TSpec::Slice { kind, boxed, members: ls, poison, array: false }
        } else {
            let cont = g.pick_cont(ls.len());
            let kind = *rng.pick(&[CollKind::Boxed, CollKind::Ref, CollKind::Retry]);
            TSpec::Coll { kind, cont, members: ls.into_iter().map(TSpec::Leaf).collect(), poison: kind != CollKind::Ref && rng.chance(1, 6) }
        }
    };
    let ta = mk(&mut rng, &mut g, (0..na).collect());
    let tb = mk(&mut rng, &mut g, (na..na + nb).collect());
    let w = WorldSpec { leaves, units: vec![], slots, targets: vec![ta, tb, TSpec::Leaf(0), TSpec::Leaf(na)], datas: vec![], gates: 0, tags: 0, panicky_tags: vec![] };
    let shared = rw && rng.chance(1, 2);
    let api = |rng: &mut Rng| if shared { *rng.pick(&[Api::Read, Api::TryRead]) } else { *rng.pick(&[Api::Lock, Api::TryLock]) };
    let mut threads: Vec<Vec<Step>> = Vec::new();
    if rng.chance(2, 3) {
        // lend and swap
        let rel = |rng: &mut Rng| if rng.chance(1, 2) { Release::Unlock } else { Release::Drop };
        threads.push(vec![Step::Acquire(Acq { target: 0, rebuild: false, api: api(&mut rng), lent_key: false, body: vec![BodyOp::LendGuard(rng.below(na)), BodyOp::Read(0)], release: rel(&mut rng), mutate: false })]);
        threads.push(vec![Step::Acquire(Acq { target: 1, rebuild: false, api: api(&mut rng), lent_key: false, body: vec![BodyOp::SwapLent(rng.below(nb)), BodyOp::Yield], release: rel(&mut rng), mutate: false }), Step::Key(KeyOp::Get)]);
    } else {
        // send a whole guard away; single locks have guards of their own
        let t = *rng.pick(&[0usize, 2]);
        threads.push(vec![Step::Acquire(Acq { target: t, rebuild: false, api: api(&mut rng), lent_key: false, body: vec![BodyOp::Read(0)], release: Release::SendAway, mutate: false }), Step::Key(KeyOp::Get)]);
        threads.push(vec![Step::Key(KeyOp::Get), Step::Yield, Step::DropForeignGuard, Step::Key(KeyOp::Get), Step::Key(KeyOp::Drop), Step::Key(KeyOp::Get)]);
    }
    if rng.chance(1, 3) {
        let t = rng.below(4);
        threads.push(vec![Step::Acquire(Acq { target: t, rebuild: false, api: Api::TryLock, lent_key: false, body: vec![], release: Release::Drop, mutate: false })]);
    }
    let mut cfg = g.cfg(40);
    cfg.faults.try_refuse_pct = 0;
    Scenario { world: w, program: Program { threads }, cfg, profile: profile.to_string() }
}

/// Member guards must not hand out references to the locks they hold: with them the members
/// of an owned collection (which locks in listing order) are reachable by shared reference.
/// One thread holds an owned collection over plain locks listed in descending address order,
/// asks every member guard for its lock, and later locks a sorting collection built over
/// whatever it was given (nothing, normally: the target then does not exist); other threads
/// lock the owned collection.
pub fn gen_guard_accessor(profile: &str, seed: u64) -> Scenario {
    let mut rng = Rng::new(seed ^ 0xACCE);
    let p = Params::base();
    let mut g = Gen::new(seed, &p);
    let n = rng.range(2, 3);
    let rw = rng.chance(1, 2);
    let leaves: Vec<LeafKind> = (0..n).map(|_| if rw { LeafKind::R } else { LeafKind::M }).collect();
    // slots ascend in address; the unit lists its members in another order
    let slots: Vec<Slot> = (0..n).map(Slot::Leaf).chain([Slot::Unit(0)]).collect();
    let mut listing: Vec<usize> = (0..n).rev().collect();
    if rng.chance(1, 3) {
        rng.shuffle(&mut listing);
    }
    let cont = g.pick_cont(n);
    let units = vec![UnitSpec { cont, leaves: listing, by_ref: true }];
    let outer_kind = *rng.pick(&[CollKind::Boxed, CollKind::Retry, CollKind::Ref]);
    let targets = vec![TSpec::Unit(0), TSpec::Exposed { unit: 0 }, TSpec::Coll { kind: outer_kind, cont: ContKind::Tuple, members: vec![TSpec::Unit(0)], poison: false }];
    let w = WorldSpec { leaves, units, slots, targets, datas: vec![], gates: 0, tags: 0, panicky_tags: vec![] };
    let hold = |t: usize, api: Api, body: Vec<BodyOp>, rebuild: bool| Step::Acquire(Acq { target: t, rebuild, api, lent_key: false, body, release: Release::Drop, mutate: false });
    let keep: Vec<BodyOp> = (0..n).map(BodyOp::KeepLockRef).collect();
    let first = *rng.pick(&[0usize, 2]);
    let api0 = if rw && rng.chance(1, 3) { Api::Read } else { Api::Lock };
    let t0 = vec![hold(first, api0, keep, false), hold(1, Api::Lock, vec![BodyOp::Yield, BodyOp::Write(0)], true), hold(1, Api::Lock, vec![], true)];
    let mut threads = vec![t0];
    for _ in 0..rng.range(1, 2) {
        threads.push(vec![Step::Yield, hold(*rng.pick(&[0usize, 2]), Api::Lock, vec![BodyOp::Yield], false), hold(0, Api::Lock, vec![], false)]);
    }
    let mut cfg = g.cfg(60);
    cfg.faults.try_refuse_pct = 0;
    Scenario { world: w, program: Program { threads }, cfg, profile: profile.to_string() }
}

pub fn gen_general(profile: &str, seed: u64, p: &Params) -> Scenario {
    // a few runs use wide collections (6-7 members: the largest tuple and array impls)
    let mut wide = p.clone();
    let p = if Rng::new(seed ^ 0x77).chance(6, 100) {
        wide.leaves = (6, 7);
        wide.target_elems = (5, 7);
        wide.unit_pct = 10;
        wide.data_pct = 10;
        wide.threads = (1, 3);
        wide.acqs = (1, 2);
        &wide
    } else {
        p
    };
    let mut g = Gen::new(seed, p);
    let mut w = g.world_base();
    g.add_targets(&mut w);
    let program = g.program(&w);
    let cfg = g.cfg(60);
    Scenario { world: w, program, cfg, profile: profile.to_string() }
}

/// C09: at least one retrying collection against anything, contention, try-refusal on
pub fn gen_c09(seed: u64) -> Scenario {
    if Rng::new(seed ^ 0x99).chance(12, 100) {
        return gen_c09_deep(seed);
    }
    let mut p = Params::base();
    p.coll_kinds = vec![CollKind::Retry, CollKind::Retry, CollKind::Retry, CollKind::Boxed, CollKind::Ref];
    p.single_pct = 10;
    p.target_elems = (1, 4);
    p.leaves = (2, 4);
    p.threads = (2, 4);
    p.try_refuse = vec![0, 10, 20, 30];
    p.nonacq_pct = 0;
    p.keyprobe_pct = 0;
    p.body_ops = (0, 2);
    let mut g = Gen::new(seed, &p);
    let mut w = g.world_base();
    g.add_targets(&mut w);
    // make sure a retrying target with >= 2 elements exists
    let all = Gen::elems_of(&w);
    if all.len() >= 2 {
        let es = g.random_subset(&all, (2, 4));
        let mut members: Vec<TSpec> = es.iter().map(|e| match e { Elem::Leaf(l) => TSpec::Leaf(*l), Elem::Unit(u) => TSpec::Unit(*u) }).collect();
        g.rng.shuffle(&mut members);
        let cont = g.pick_cont(members.len());
        w.targets.push(TSpec::Coll { kind: CollKind::Retry, cont, members, poison: false });
    }
    let program = g.program(&w);
    let cfg = g.cfg(80);
    Scenario { world: w, program, cfg, profile: "C09".into() }
}

/// C10 / C11: user panics inside holds; C10 adds poison-heavy leaves and clear/is_poisoned ops
pub fn gen_panics(profile: &str, seed: u64, poison_heavy: bool) -> Scenario {
    let mut p = Params::base();
    p.panic_pct = 35;
    p.keyprobe_pct = 3;
    p.acqs = (1, 4);
    if poison_heavy {
        p.leaf_kinds = vec![LeafKind::PM, LeafKind::PR, LeafKind::PPM, LeafKind::PPR, LeafKind::PM, LeafKind::PR, LeafKind::M, LeafKind::R];
        p.poison_coll_pct = 30;
        p.nonacq_pct = 15;
        p.leaves = (1, 4);
        p.threads = (1, 3);
    }
    let mut scn = gen_general(profile, seed, &p);
    // some sections (panicking or not) run inside a destructor during an unrelated unwind
    let mut rng = Rng::new(seed ^ 0xF00D);
    for th in scn.program.threads.iter_mut() {
        for st in th.iter_mut() {
            if matches!(st, Step::Acquire(_)) && rng.chance(7, 100) {
                let inner = st.clone();
                *st = Step::InUnwind(Box::new(inner));
            }
        }
    }
    scn
}

/// C06: key histories. Every thread works on its own locks (leaked guards keep locks held
/// for ever), try APIs on locks the thread itself leaked exercise the failure paths.
pub fn gen_c06(seed: u64) -> Scenario {
    let mut p = Params::base();
    p.unit_pct = 15;
    p.leaves = (2, 5);
    p.panic_pct = 15;
    p.keyprobe_pct = 30;
    p.nonacq_pct = 0;
    p.shared_ref_pct = 0;
    let mut g = Gen::new(seed, &p);
    let mut w = g.world_base();
    let all = Gen::elems_of(&w);
    let nthreads = g.rng.range(1, 2);
    // partition the elements among the threads
    let mut own: Vec<Vec<Elem>> = vec![Vec::new(); nthreads];
    for e in &all {
        let t = g.rng.below(nthreads);
        own[t].push(e.clone());
    }
    let mut thread_targets: Vec<Vec<usize>> = vec![Vec::new(); nthreads];
    for t in 0..nthreads {
        if own[t].is_empty() {
            continue;
        }
        let nt = g.rng.range(1, 3);
        for _ in 0..nt {
            let es = g.random_subset(&own[t].clone(), (1, 3));
            let spec = g.target_over(&w, &es, 1, true);
            w.targets.push(spec);
            thread_targets[t].push(w.targets.len() - 1);
        }
    }
    let mut threads = Vec::new();
    for t in 0..nthreads {
        let n = g.rng.range(3, 12);
        let mut steps = Vec::new();
        let mut dead: Vec<Lid> = Vec::new();
        for _ in 0..n {
            let c = g.rng.below(100);
            if c < 12 {
                // now and then the request is repeated more often than a small counter can count
                if g.rng.chance(1, 25) {
                    steps.push(Step::Key(KeyOp::GetMany(*g.rng.pick(&[300u32, 70_000, 70_000]))));
                } else {
                    steps.push(Step::Key(KeyOp::Get));
                }
            } else if c < 20 {
                steps.push(Step::Key(KeyOp::Drop));
            } else if c < 23 {
                steps.push(Step::Key(KeyOp::Forget));
            } else if !thread_targets[t].is_empty() {
                let ti = *g.rng.pick(&thread_targets[t]);
                let mut a = g.acq(&w, ti);
                a.rebuild = false;
                let leaves: Vec<Lid> = w.flatten(&w.targets[ti], None).iter().map(|f| f.lid).collect();
                let touches_dead = leaves.iter().any(|l| dead.contains(l));
                if touches_dead && !a.api.is_try() {
                    a.api = match a.api {
                        Api::Lock => Api::TryLock,
                        Api::Read => Api::TryRead,
                        Api::ScopedLock => Api::ScopedTryLock,
                        _ => Api::ScopedTryRead,
                    };
                }
                if !a.api.is_scoped() && g.rng.chance(12, 100) {
                    a.release = Release::Forget;
                    a.body.retain(|b| !matches!(b, BodyOp::Panic));
                    if !touches_dead {
                        // the acquisition may succeed: its locks stay held for ever
                    }
                    dead.extend(leaves.iter().copied());
                }
                if a.release != Release::Forget && g.rng.chance(8, 100) {
                    // key-affecting calls made from a destructor while an unrelated panic unwinds
                    steps.push(Step::InUnwind(Box::new(Step::Acquire(a))));
                    steps.push(Step::Key(KeyOp::Get));
                    continue;
                }
                steps.push(Step::Acquire(a));
            }
        }
        threads.push(steps);
    }
    let mut cfg = g.cfg(60);
    cfg.faults.try_refuse_pct = 0;
    Scenario { world: w, program: Program { threads }, cfg, profile: "C06".into() }
}

type Lid = usize;

/// C07: member lists with and without duplicates; every construction is judged by the
/// duplicate oracle, accepted collections are then locked once
/// C13 / C04 with more locks than a machine word has bits: one collection over 65-80 plain
/// locks; a holder keeps one of them (anywhere in the order) while the tester tries the whole
/// collection (must fail, hold nothing, change nothing), then lets go and the tester tries
/// again (must succeed)
pub fn gen_try_big(profile: &str, seed: u64) -> Scenario {
    let mut rng = Rng::new(seed ^ 0x7B16);
    let n = rng.range(65, 80);
    let rw = rng.chance(1, 2);
    let leaves: Vec<LeafKind> = (0..n).map(|_| if rw { LeafKind::R } else { LeafKind::M }).collect();
    let mut slots: Vec<Slot> = (0..n).map(Slot::Leaf).collect();
    rng.shuffle(&mut slots);
    let mut ms: Vec<usize> = (0..n).collect();
    rng.shuffle(&mut ms);
    let kind = *rng.pick(&[CollKind::Boxed, CollKind::Ref, CollKind::Retry]);
    let coll = if rng.chance(1, 2) {
        let (kind, boxed) = match kind {
            CollKind::Ref => (CollKind::Ref, true),
            CollKind::Retry => (CollKind::Retry, false),
            k => (k, rng.chance(1, 2)),
        };
        TSpec::Slice { kind, boxed, members: ms, poison: false, array: false }
    } else {
        TSpec::Coll { kind, cont: *rng.pick(&[ContKind::Vec, ContKind::BoxSlice]), members: ms.into_iter().map(TSpec::Leaf).collect(), poison: false }
    };
    let x = rng.below(n);
    let w = WorldSpec { leaves, units: vec![], slots, targets: vec![coll, TSpec::Leaf(x)], datas: vec![], gates: 3, tags: 0, panicky_tags: vec![] };
    let try_api = |rng: &mut Rng| if rw && rng.chance(1, 3) { *rng.pick(&[Api::TryRead, Api::ScopedTryRead]) } else { *rng.pick(&[Api::TryLock, Api::ScopedTryLock]) };
    let hold_api = if rw && rng.chance(1, 3) { Api::Read } else { Api::Lock };
    let acq = |target: usize, api: Api, body: Vec<BodyOp>| Step::Acquire(Acq { target, rebuild: false, api, lent_key: false, body, release: Release::Drop, mutate: false });
    // (the second try starts only when the holder has let go: both tries see a state that does not change under them)
    let holder = vec![acq(1, hold_api, vec![BodyOp::GateOpen(0), BodyOp::GateWait(1)]), Step::GateOpen(2)];
    let a1 = try_api(&mut rng);
    let a2 = try_api(&mut rng);
    let tester = vec![Step::GateWait(0), acq(0, a1, vec![]), Step::GateOpen(1), Step::GateWait(2), acq(0, a2, vec![BodyOp::Read(0)])];
    let p = Params::base();
    let mut g = Gen::new(seed, &p);
    let mut cfg = g.cfg(200);
    cfg.faults.try_refuse_pct = 0;
    Scenario { world: w, program: Program { threads: vec![tester, holder] }, cfg, profile: profile.to_string() }
}

/// C07 with long lists: 17-48 locks, each checked constructor given a list that is either
/// duplicate-free or repeats exactly one lock, the two occurrences anywhere in the list
/// (in particular far apart, and beyond any small-list fast path); one thread locks what was built
pub fn gen_c07_big(seed: u64) -> Scenario {
    let mut rng = Rng::new(seed ^ 0xB1607);
    // (sometimes more locks than a machine word has bits)
    let n = if rng.chance(1, 5) { rng.range(65, 80) } else { rng.range(17, 48) };
    let rw = rng.chance(1, 2);
    let leaves: Vec<LeafKind> = (0..n).map(|_| if rw { LeafKind::R } else { *rng.pick(&[LeafKind::M, LeafKind::R, LeafKind::PM]) }).collect();
    let mut slots: Vec<Slot> = (0..n).map(Slot::Leaf).collect();
    rng.shuffle(&mut slots);
    let mut targets = Vec::new();
    for _ in 0..rng.range(1, 3) {
        let mut ms: Vec<usize> = (0..n).collect();
        rng.shuffle(&mut ms);
        ms.truncate(if n > 64 && rng.chance(2, 3) { rng.range(65, n) } else { rng.range(17, n) });
        if rng.chance(1, 2) {
            // one repeat: first occurrence anywhere, second anywhere else
            let src = ms[rng.below(ms.len())];
            let pos = rng.range(0, ms.len());
            ms.insert(pos, src);
        }
        let kind = *rng.pick(&[CollKind::Boxed, CollKind::Ref, CollKind::Retry, CollKind::Retry]);
        if rng.chance(1, 3) {
            let boxed = kind == CollKind::Ref || rng.chance(1, 2);
            let kind = if kind == CollKind::Ref || boxed { if boxed && kind != CollKind::Ref { CollKind::Boxed } else { kind } } else { kind };
            let (kind, boxed) = match (kind, boxed) {
                (CollKind::Ref, _) => (CollKind::Ref, true),
                (CollKind::Retry, _) => (CollKind::Retry, false),
                (k, b) => (k, b),
            };
            targets.push(TSpec::Slice { kind, boxed, members: ms, poison: false, array: false });
        } else {
            let cont = *rng.pick(&[ContKind::Vec, ContKind::BoxSlice]);
            targets.push(TSpec::Coll { kind, cont, members: ms.into_iter().map(TSpec::Leaf).collect(), poison: false });
        }
    }
    let w = WorldSpec { leaves, units: vec![], slots, targets, datas: vec![], gates: 0, tags: 0, panicky_tags: vec![] };
    let mut steps = Vec::new();
    for t in 0..w.targets.len() {
        let api = if rw && rng.chance(1, 2) { *rng.pick(&[Api::Read, Api::TryRead, Api::ScopedTryRead]) } else { *rng.pick(&[Api::Lock, Api::TryLock, Api::ScopedLock, Api::ScopedTryLock]) };
        steps.push(Step::Acquire(Acq { target: t, rebuild: rng.chance(1, 3), api, lent_key: false, body: vec![], release: Release::Drop, mutate: false }));
    }
    let p = Params::base();
    let mut g = Gen::new(seed, &p);
    let mut cfg = g.cfg(100);
    cfg.faults.try_refuse_pct = 0;
    Scenario { world: w, program: Program { threads: vec![steps] }, cfg, profile: "C07".into() }
}

pub fn gen_c07(seed: u64) -> Scenario {
    if Rng::new(seed ^ 0x707).chance(3, 100) {
        return gen_c07_big(seed);
    }
    let mut p = Params::base();
    p.leaves = (1, 5);
    p.nest_pct = 30;
    p.poison_coll_pct = 15;
    let mut g = Gen::new(seed, &p);
    let mut w = g.world_base();
    let all = Gen::elems_of(&w);
    let nt = g.rng.range(1, 4);
    for ti in 0..nt {
        let want_dup = g.rng.chance(1, 2);
        let len = g.rng.range(0, 6);
        let mut members: Vec<TSpec> = Vec::new();
        let mut pool: Vec<Elem> = all.clone();
        g.rng.shuffle(&mut pool);
        let mut used: Vec<Elem> = Vec::new();
        while members.len() < len {
            // choose elements with (dup) or without replacement
            let pick_from_used = want_dup && !used.is_empty() && g.rng.chance(35, 100);
            let e = if pick_from_used {
                Some(g.rng.pick(&used).clone())
            } else {
                pool.pop()
            };
            let e = match e {
                Some(e) => e,
                None => {
                    if want_dup && !used.is_empty() {
                        g.rng.pick(&used).clone()
                    } else {
                        break;
                    }
                }
            };
            used.push(e.clone());
            let leafspec = match &e { Elem::Leaf(l) => TSpec::Leaf(*l), Elem::Unit(u) => TSpec::Unit(*u) };
            let c = g.rng.below(100);
            if c < 20 {
                // wrap in a nested collection, possibly together with another (maybe repeated) element
                let mut sub = vec![leafspec];
                if g.rng.chance(1, 2) {
                    let e2 = if want_dup && g.rng.chance(1, 3) { Some(g.rng.pick(&used).clone()) } else { pool.pop() };
                    if let Some(e2) = e2 {
                        used.push(e2.clone());
                        sub.push(match &e2 { Elem::Leaf(l) => TSpec::Leaf(*l), Elem::Unit(u) => TSpec::Unit(*u) });
                    }
                }
                g.rng.shuffle(&mut sub);
                let kind = *g.rng.pick(&[CollKind::Boxed, CollKind::Ref, CollKind::Retry]);
                let cont = g.pick_cont(sub.len());
                let poison = kind != CollKind::Ref && g.rng.chance(1, 4);
                if g.rng.chance(3, 10) {
                    members.push(TSpec::Group { cont, members: sub });
                } else {
                    members.push(TSpec::Coll { kind, cont, members: sub, poison });
                }
            } else if c < 30 && ti > 0 {
                // reference an earlier shared target (referenced twice => duplicate)
                members.push(TSpec::Shared(g.rng.below(ti)));
            } else {
                members.push(leafspec);
            }
        }
        g.rng.shuffle(&mut members);
        if members.len() > 7 {
            members.truncate(7);
        }
        let kind = *g.rng.pick(&[CollKind::Boxed, CollKind::Ref, CollKind::Retry]);
        let cont = g.pick_cont(members.len());
        let poison = kind != CollKind::Ref && g.rng.chance(1, 6);
        w.targets.push(TSpec::Coll { kind, cont, members, poison });
    }
    let free: Vec<usize> = all.iter().filter_map(|e| if let Elem::Leaf(l) = e { Some(*l) } else { None }).collect();
    if !free.is_empty() && g.rng.chance(1, 3) {
        let ms: Vec<usize> = (0..g.rng.range(0, 4)).map(|_| *g.rng.pick(&free)).collect();
        let kind = *g.rng.pick(&[OwnKind::Boxed, OwnKind::Retry, OwnKind::Ref]);
        let cont = g.pick_cont(ms.len());
        w.targets.push(TSpec::MutRefs { kind, cont, members: ms });
    }
    // one thread: construct again (private), lock once if accepted
    let mut steps = Vec::new();
    for t in 0..w.targets.len() {
        steps.push(Step::NonAcq(NonAcqOp::Construct, t));
        for rebuild in [false, true] {
            let rw = w.all_rw(&w.targets[t]);
            let api = if rw && g.rng.chance(1, 2) { Api::Read } else { Api::Lock };
            let nflat = w.flatten(&w.targets[t], None).len();
            let body = if nflat > 0 { vec![BodyOp::Read(g.rng.below(nflat))] } else { vec![] };
            steps.push(Step::Acquire(Acq { target: t, rebuild, api, lent_key: false, body, release: Release::Drop, mutate: false }));
        }
    }
    let mut cfg = g.cfg(60);
    cfg.faults.try_refuse_pct = 0;
    Scenario { world: w, program: Program { threads: vec![steps] }, cfg, profile: "C07".into() }
}

/// C08: several sorting collections over a shared universe in different arrangements,
/// nested boxed/ref/retrying members, owned groups; blocking acquisitions, one or two threads
pub fn gen_c08(seed: u64) -> Scenario {
    if Rng::new(seed ^ 0x88).chance(3, 100) {
        return gen_c08_big(seed);
    }
    let mut p = Params::base();
    p.leaves = (2, 5);
    p.coll_kinds = vec![CollKind::Boxed, CollKind::Ref];
    p.single_pct = 0;
    p.nest_pct = 35;
    p.unit_pct = 40;
    p.data_pct = 50;
    let mut g = Gen::new(seed, &p);
    let mut w = g.world_base();
    let all = Gen::elems_of(&w);
    let nt = g.rng.range(2, 4);
    let base = g.random_subset(&all, (2, 5));
    for i in 0..nt {
        let es = if i == 0 || g.rng.chance(2, 3) { base.clone() } else { g.random_subset(&all, (1, 5)) };
        // root sorts; nested members may be of any kind
        let mut t = {
            let saved = g.coll_kinds.clone();
            g.coll_kinds = vec![CollKind::Boxed, CollKind::Ref, CollKind::Retry];
            let t = g.target_over(&w, &es, 1, false);
            g.coll_kinds = saved;
            t
        };
        if let TSpec::Coll { kind, poison, .. } = &mut t {
            if *kind == CollKind::Retry {
                *kind = if g.rng.chance(1, 2) { CollKind::Boxed } else { CollKind::Ref };
            }
            if *kind == CollKind::Ref {
                *poison = false;
            }
        }
        w.targets.push(t);
    }
    for d in 0..w.datas.len() {
        for _ in 0..g.rng.range(2, 3) {
            let kind = *g.rng.pick(&[CollKind::Boxed, CollKind::Ref, CollKind::Ref]);
            {
                let unchecked = g.rng.chance(1, 5);
                w.targets.push(TSpec::OnData { data: d, kind, from: !unchecked && kind == CollKind::Ref && g.rng.chance(1, 3), poison: false, unchecked });
            }
        }
    }
    let nthreads = g.rng.range(1, 2);
    let mut threads = Vec::new();
    for _ in 0..nthreads {
        let mut steps = Vec::new();
        let n = g.rng.range(2, 5);
        for _ in 0..n {
            let t = g.rng.below(w.targets.len());
            let rw = w.all_rw(&w.targets[t]);
            let apis: Vec<Api> = [Api::Lock, Api::ScopedLock, Api::Read, Api::ScopedRead].into_iter().filter(|a| rw || !a.is_read()).collect();
            let api = *g.rng.pick(&apis);
            steps.push(Step::Acquire(Acq { target: t, rebuild: g.rng.chance(1, 3), api, lent_key: api.is_scoped() && g.rng.chance(1, 2), body: vec![], release: Release::Drop, mutate: false }));
        }
        threads.push(steps);
    }
    let mut cfg = g.cfg(60);
    cfg.faults.try_refuse_pct = 0;
    Scenario { world: w, program: Program { threads }, cfg, profile: "C08".into() }
}

/// C13 / C17: holder threads take an assignment of {free, read-held, write-held} over the
/// elements and park; the tester then tries (C13) or runs non-acquiring operations (C17),
/// also from inside its own guard / running closure.
pub fn gen_quiescent(seed: u64, nonacq: bool) -> Scenario {
    let mut p = Params::base();
    p.leaves = (1, 4);
    p.unit_pct = 25;
    p.max_units = 1;
    p.nest_pct = 30;
    p.single_pct = 25;
    p.poison_coll_pct = 15;
    p.nonacq_pct = 0;
    p.keyprobe_pct = 0;
    let mut g = Gen::new(seed, &p);
    let mut w = g.world_base();
    let all = Gen::elems_of(&w);
    // tester targets first (indices 0..nt)
    let nt = g.rng.range(1, 3);
    for _ in 0..nt {
        let es = g.random_subset(&all, (0, 4));
        let t = g.target_over(&w, &es, 1, true);
        w.targets.push(t);
    }
    let mut nt = nt;
    let free: Vec<usize> = all.iter().filter_map(|e| if let Elem::Leaf(l) = e { Some(*l) } else { None }).collect();
    if !free.is_empty() && g.rng.chance(15, 100) {
        let mut ms: Vec<usize> = (0..g.rng.range(1, 3)).map(|_| *g.rng.pick(&free)).collect();
        if g.rng.chance(2, 3) {
            ms.sort();
            ms.dedup();
        }
        let kind = *g.rng.pick(&[OwnKind::Boxed, OwnKind::Retry, OwnKind::Ref]);
        let cont = g.pick_cont(ms.len());
        w.targets.insert(nt, TSpec::MutRefs { kind, cont, members: ms });
        nt += 1;
    }
    for d in 0..w.datas.len() {
        let kind = *g.rng.pick(&[CollKind::Boxed, CollKind::Ref, CollKind::Retry]);
        // keep tester targets contiguous at the front
        w.targets.insert(nt, TSpec::OnData { data: d, kind, from: false, poison: false, unchecked: false });
        nt += 1;
    }
    // holders: one per held element
    let mut holders: Vec<Vec<Step>> = Vec::new();
    let done_gate = 0usize;
    let mut gates = 1usize;
    for e in &all {
        let c = g.rng.below(100);
        if c < 45 {
            continue; // free
        }
        let spec = match e {
            Elem::Leaf(l) if !w.leaves[*l].standalone() => TSpec::Coll { kind: CollKind::Boxed, cont: ContKind::Vec, members: vec![TSpec::Leaf(*l)], poison: false },
            Elem::Leaf(l) => TSpec::Leaf(*l),
            Elem::Unit(u) => TSpec::Unit(*u),
        };
        let rw = w.all_rw(&spec);
        w.targets.push(spec);
        let ti = w.targets.len() - 1;
        let read = rw && c < 72;
        let scoped = g.rng.chance(1, 3);
        let api = match (read, scoped) {
            (true, false) => Api::Read,
            (true, true) => Api::ScopedRead,
            (false, false) => Api::Lock,
            (false, true) => Api::ScopedLock,
        };
        let my_gate = gates;
        gates += 1;
        holders.push(vec![Step::Acquire(Acq { target: ti, rebuild: false, api, lent_key: scoped && g.rng.chance(1, 2), body: vec![BodyOp::GateOpen(my_gate), BodyOp::GateWait(done_gate)], release: Release::Drop, mutate: false })]);
        if holders.len() >= 4 {
            break;
        }
    }
    // sometimes a thread panics inside a hold and lets go before the tester starts: the locks
    // are free again, the Poisonables among them poisoned
    if !nonacq && g.rng.chance(1, 4) {
        let free_elems: Vec<Elem> = all.iter().filter(|e| !holders.iter().any(|h| matches!(&h[0], Step::Acquire(a) if w.elems(&w.targets[a.target]).contains(e)))).cloned().collect();
        if !free_elems.is_empty() {
            let es = g.random_subset(&free_elems, (1, 2));
            let spec = g.target_over(&w, &es, 1, false);
            w.targets.push(spec);
            let ti = w.targets.len() - 1;
            let api = *g.rng.pick(&[Api::Lock, Api::ScopedLock]);
            let my_gate = gates;
            gates += 1;
            holders.push(vec![
                Step::Acquire(Acq { target: ti, rebuild: false, api, lent_key: false, body: vec![BodyOp::Panic], release: Release::Drop, mutate: false }),
                Step::GateOpen(my_gate),
            ]);
        }
    }
    let mut tester: Vec<Step> = (1..gates).map(Step::GateWait).collect();
    let nops = g.rng.range(1, 4);
    for _ in 0..nops {
        let t = g.rng.below(nt);
        if nonacq {
            let (l1, l2) = (g.rng.below(150) as u16, g.rng.below(40) as u16);
            let op = *g.rng.pick(&[NonAcqOp::Debug, NonAcqOp::DebugPretty, NonAcqOp::DebugPretty, NonAcqOp::DebugLimited(l1), NonAcqOp::DebugLimited(l2), NonAcqOp::DebugPayloadErr, NonAcqOp::DebugPayloadPanic, NonAcqOp::IsPoisoned, NonAcqOp::ClearPoison, NonAcqOp::Accessors, NonAcqOp::Construct]);
            let any_t = g.rng.below(w.targets.len());
            if g.rng.chance(1, 2) {
                tester.push(Step::NonAcq(op, any_t));
            } else {
                // from inside the tester's own hold (guard or closure); try APIs so that the
                // tester itself never waits on a holder
                let rw = w.all_rw(&w.targets[t]);
                let apis: Vec<Api> = [Api::TryLock, Api::ScopedTryLock, Api::TryRead, Api::ScopedTryRead].into_iter().filter(|a| rw || !a.is_read()).collect();
                let api = *g.rng.pick(&apis);
                tester.push(Step::Acquire(Acq { target: t, rebuild: false, api, lent_key: api.is_scoped() && g.rng.chance(1, 2), body: vec![BodyOp::NonAcq(op, any_t)], release: Release::Drop, mutate: false }));
            }
        } else {
            let rw = w.all_rw(&w.targets[t]);
            let apis: Vec<Api> = [Api::TryLock, Api::ScopedTryLock, Api::TryRead, Api::ScopedTryRead].into_iter().filter(|a| rw || !a.is_read()).collect();
            let api = *g.rng.pick(&apis);
            let nflat = w.flatten(&w.targets[t], None).len();
            let body = if nflat > 0 && g.rng.chance(1, 2) { vec![BodyOp::Read(g.rng.below(nflat))] } else { vec![] };
            let a = Acq { target: t, rebuild: g.rng.chance(1, 4), api, lent_key: api.is_scoped() && g.rng.chance(1, 2), body, release: if g.rng.chance(1, 3) { Release::Unlock } else { Release::Drop }, mutate: false };
            if g.rng.chance(1, 10) {
                // the attempt is made from a destructor while an unrelated panic unwinds: whether
                // it succeeds depends on the locks alone
                tester.push(Step::InUnwind(Box::new(Step::Acquire(a))));
            } else {
                tester.push(Step::Acquire(a));
            }
        }
    }
    if nonacq && g.rng.chance(1, 4) {
        // get_mut / into_inner / into_child / ... on a collection whose guard was leaked: they must
        // not touch the raw locks at all (a leaked guard holds them for ever)
        let n = g.rng.range(1, 3);
        let mut lids = Vec::new();
        for _ in 0..n {
            w.leaves.push(*g.rng.pick(&LeafKind::ALL));
            lids.push(w.leaves.len() - 1);
        }
        let kind = *g.rng.pick(&[OwnKind::Boxed, OwnKind::Retry, OwnKind::Owned]);
        let cont = g.pick_cont(n);
        w.targets.push(TSpec::Own { kind, cont, leaves: lids, ctor: Ctor::New, poison: g.rng.chance(1, 4) });
        let ti = w.targets.len() - 1;
        let rw = w.all_rw(&w.targets[ti]);
        let api = if rw && g.rng.chance(1, 2) { Api::Read } else { Api::Lock };
        tester.push(Step::Acquire(Acq { target: ti, rebuild: false, api, lent_key: false, body: vec![], release: Release::Forget, mutate: false }));
        let d = *g.rng.pick(&[Dtor::IntoChild, Dtor::IntoInner, Dtor::IntoIter, Dtor::GetMut, Dtor::ChildMut, Dtor::IterMut, Dtor::AsMut, Dtor::Drop]);
        tester.push(Step::Destroy(ti, d));
    }
    tester.push(Step::GateOpen(done_gate));
    w.gates = gates;
    let mut threads = vec![tester];
    threads.extend(holders);
    let mut cfg = g.cfg(60);
    cfg.faults.try_refuse_pct = 0;
    Scenario { world: w, program: Program { threads }, cfg, profile: if nonacq { "C17".into() } else { "C13".into() } }
}

/// C12 base scenario: one thread whose API calls will have raw-lock faults injected, plus
/// holder threads that keep some of the same locks busy for a while (pre-held patterns:
/// they make tries fail and drive rollback and retry paths). Faults are added by
/// `c12_variants` after a fault-free pilot run has counted the raw operations.
pub fn gen_c12(seed: u64) -> Scenario {
    let mut p = Params::base();
    p.leaves = (1, 4);
    p.unit_pct = 25;
    p.max_units = 1;
    p.nest_pct = 20;
    p.single_pct = 25;
    p.poison_coll_pct = 10;
    p.nonacq_pct = 0;
    p.keyprobe_pct = 0;
    p.yield_pct = 10;
    p.body_ops = (0, 2);
    p.shared_ref_pct = 0;
    let mut g = Gen::new(seed, &p);
    let mut w = g.world_base();
    let all = Gen::elems_of(&w);
    let mut nt = g.rng.range(1, 2);
    for _ in 0..nt {
        let es = g.random_subset(&all, (1, 4));
        let t = g.target_over(&w, &es, 1, true);
        w.targets.push(t);
    }
    for d in 0..w.datas.len() {
        let kind = *g.rng.pick(&[CollKind::Boxed, CollKind::Ref, CollKind::Retry]);
        w.targets.push(TSpec::OnData { data: d, kind, from: false, poison: kind != CollKind::Ref && g.rng.chance(1, 8), unchecked: g.rng.chance(1, 6) });
        nt += 1;
    }
    let mut main_steps = Vec::new();
    for _ in 0..g.rng.range(1, 2) {
        let t = g.rng.below(nt);
        let mut a = g.acq(&w, t);
        a.rebuild = false;
        if g.rng.chance(15, 100) {
            // the whole acquisition happens inside a destructor during an unrelated unwind
            a.body.retain(|b| !matches!(b, BodyOp::Panic));
            main_steps.push(Step::InUnwind(Box::new(Step::Acquire(a))));
        } else {
            main_steps.push(Step::Acquire(a));
        }

    }
    let mut threads = vec![main_steps];
    let nh = g.rng.range(0, 2);
    let mut prev_holder: Option<Elem> = None;
    for _ in 0..nh {
        if all.is_empty() {
            break;
        }
        // sometimes the second holder wants what the first one holds: it is then blocked inside
        // its acquisition while the faults strike
        let e = match &prev_holder {
            Some(p) if g.rng.chance(1, 4) => p.clone(),
            _ => g.rng.pick(&all).clone(),
        };
        prev_holder = Some(e.clone());
        let spec = match &e {
            Elem::Leaf(l) if !w.leaves[*l].standalone() => TSpec::Coll { kind: CollKind::Ref, cont: ContKind::Vec, members: vec![TSpec::Leaf(*l)], poison: false },
            Elem::Leaf(l) => TSpec::Leaf(*l),
            Elem::Unit(u) => TSpec::Unit(*u),
        };
        let rw = w.all_rw(&spec);
        w.targets.push(spec);
        let ti = w.targets.len() - 1;
        let api = if rw && g.rng.chance(1, 2) { Api::Read } else { Api::Lock };
        let body: Vec<BodyOp> = (0..g.rng.range(1, 3)).map(|_| BodyOp::Yield).collect();
        threads.push(vec![Step::Acquire(Acq { target: ti, rebuild: false, api, lent_key: false, body, release: Release::Drop, mutate: false })]);
    }
    let mut cfg = g.cfg(60);
    cfg.faults.try_refuse_pct = 0;
    Scenario { world: w, program: Program { threads }, cfg, profile: "C12".into() }
}

/// all one-shot fault positions of thread 0's API calls (as counted by the pilot run), both
/// before and after the operation's effect, plus a few persistent ("evil lock") variants
pub fn c12_variants(base: &Scenario, api_log: &[(usize, u32, crate::sched::ApiKind, u32)], seed: u64) -> Vec<Scenario> {
    use crate::sched::{OneShot, When};
    let mut rng = Rng::new(seed ^ 0xC12C12);
    let mut out = Vec::new();
    let mut shots: Vec<OneShot> = Vec::new();
    for (tid, idx, _kind, ops) in api_log {
        if *tid != 0 {
            continue;
        }
        for k in 0..*ops {
            shots.push(OneShot { tid: 0, api_idx: *idx, op_idx: k, when: When::Before });
            shots.push(OneShot { tid: 0, api_idx: *idx, op_idx: k, when: When::After });
        }
    }
    rng.shuffle(&mut shots);
    shots.truncate(32);
    for sh in shots {
        let mut s = base.clone();
        s.cfg.faults.oneshots = vec![sh];
        out.push(s);
    }
    // persistent faults as in tests/evil_*.rs (at most one lock whose unlock panics: two
    // panicking unlocks inside one guard abort the process by Rust's own rules)
    let nl = base.world.leaves.len();
    if nl > 0 {
        let masks: [[bool; 3]; 6] = [[true, false, true], [false, true, false], [false, false, true], [true, true, true], [true, false, false], [true, true, false]];
        for _ in 0..4 {
            let lid = rng.below(nl);
            let mask = *rng.pick(&masks);
            let mut s = base.clone();
            s.cfg.faults.evil = vec![(lid, mask)];
            if nl > 1 && rng.chance(1, 3) {
                // a second faulty lock that never panics in unlock
                let l2 = (lid + 1 + rng.below(nl - 1)) % nl;
                let m2 = *rng.pick(&[[true, false, false], [false, true, false], [true, true, false]]);
                s.cfg.faults.evil.push((l2, m2));
            }
            // holders stay away from faulty locks
            let evil_lids: Vec<usize> = s.cfg.faults.evil.iter().map(|e| e.0).collect();
            let w = s.world.clone();
            let keep: Vec<bool> = s.program.threads.iter().enumerate().map(|(i, th)| {
                i == 0 || !th.iter().any(|st| matches!(st, Step::Acquire(a) if w.flatten(&w.targets[a.target], None).iter().any(|f| evil_lids.contains(&f.lid))))
            }).collect();
            let mut i = 0;
            s.program.threads.retain(|_| { let k = keep[i]; i += 1; k });
            out.push(s);
        }
    }
    out
}

/// C10 under a raw-lock fault: the release of one member of a multi-member guard panics, the
/// panic unwinds through the rest of the guard, whose Poisonable members are still held
pub fn c10_release_fault_variants(base: &Scenario, api_log: &[(usize, u32, crate::sched::ApiKind, u32)], seed: u64) -> Vec<Scenario> {
    use crate::sched::{OneShot, When};
    let mut rng = Rng::new(seed ^ 0xC10F);
    let mut shots: Vec<OneShot> = Vec::new();
    for (tid, idx, kind, ops) in api_log {
        if *kind != crate::sched::ApiKind::Release || *ops < 2 {
            continue;
        }
        // a release that runs inside a destructor during an unwind cannot panic without
        // aborting the process (Rust's own rule): such threads are left alone
        let in_unwind = |st: &Step| matches!(st, Step::InUnwind(_)) || matches!(st, Step::Acquire(a) if a.release == Release::UnlockInDrop);
        if base.program.threads.get(*tid).map(|th| th.iter().any(in_unwind)).unwrap_or(true) {
            continue;
        }
        for k in 0..*ops - 1 {
            shots.push(OneShot { tid: *tid, api_idx: *idx, op_idx: k, when: *rng.pick(&[When::Before, When::After]) });
        }
    }
    rng.shuffle(&mut shots);
    shots.truncate(3);
    shots
        .into_iter()
        .map(|sh| {
            let mut s = base.clone();
            // the raw fault is the only panic of the victim thread: a second panic during the
            // unwind of a first one aborts the process by Rust's own rules
            for st in s.program.threads[sh.tid].iter_mut() {
                match st {
                    Step::Acquire(a) => {
                        a.body.retain(|b| !matches!(b, BodyOp::Panic | BodyOp::ArmBomb));
                        for b in a.body.iter_mut() {
                            if let BodyOp::NonAcq(op @ NonAcqOp::DebugPayloadPanic, _) = b {
                                *op = NonAcqOp::Debug;
                            }
                        }
                    }
                    Step::NonAcq(op @ NonAcqOp::DebugPayloadPanic, _) => *op = NonAcqOp::Debug,
                    _ => {}
                }
            }
            s.cfg.faults.oneshots = vec![sh];
            s.cfg.faults.try_refuse_pct = 0;
            s
        })
        .collect()
}

/// C11: the panic injected at each critical section of each thread in turn
pub fn c11_variants(base: &Scenario, seed: u64) -> Vec<Scenario> {
    let mut rng = Rng::new(seed ^ 0xC11C11);
    let mut out = Vec::new();
    for (ti, th) in base.program.threads.iter().enumerate() {
        for (si, st) in th.iter().enumerate() {
            if let Step::Acquire(a) = st {
                if a.release == Release::Forget {
                    continue;
                }
                let mut s = base.clone();
                if let Step::Acquire(a2) = &mut s.program.threads[ti][si] {
                    a2.body.retain(|b| !matches!(b, BodyOp::Panic));
                    let pos = rng.range(0, a2.body.len());
                    a2.body.insert(pos, BodyOp::Panic);
                }
                let _ = a;
                if rng.chance(1, 6) {
                    // while the section is running, another thread's raw try on one of its locks
                    // panics (that lock is killed under the holder's feet); then the section panics
                    let owned = s.world.owned_leaves();
                    let cands: Vec<usize> = s.world.flatten(&s.world.targets[a.target], None).iter().map(|f| f.lid).filter(|l| !owned.contains(l) && s.world.leaves[*l].standalone()).collect();
                    if !cands.is_empty() {
                        let l = cands[rng.below(cands.len())];
                        s.world.targets.push(TSpec::Leaf(l));
                        let tl = s.world.targets.len() - 1;
                        s.program.threads.push(vec![Step::Acquire(Acq { target: tl, rebuild: false, api: Api::TryLock, lent_key: false, body: vec![], release: Release::Drop, mutate: false })]);
                        let tid = s.program.threads.len() - 1;
                        s.cfg.faults.oneshots = vec![crate::sched::OneShot { tid, api_idx: 0, op_idx: 0, when: if rng.chance(1, 2) { crate::sched::When::Before } else { crate::sched::When::After } }];
                        if let Step::Acquire(a2) = &mut s.program.threads[ti][si] {
                            // give the other thread room to run inside the hold
                            let pos = a2.body.iter().position(|b| matches!(b, BodyOp::Panic)).unwrap_or(0);
                            a2.body.insert(pos, BodyOp::Yield);
                            a2.body.insert(pos, BodyOp::Yield);
                        }
                    }
                } else if rng.chance(1, 6) {
                    // the panicking section itself runs inside a destructor during an unrelated unwind
                    let inner = s.program.threads[ti][si].clone();
                    s.program.threads[ti][si] = Step::InUnwind(Box::new(inner));
                }
                out.push(s);
            }
        }
    }
    out
}

/// C16: collections that own their values, every constructor and destructor path, writer
/// threads in between, drop-counting payloads and tags
pub fn gen_c16(seed: u64) -> Scenario {
    let mut p = Params::base();
    p.leaves = (0, 2);
    p.unit_pct = 20;
    p.max_units = 1;
    p.nonacq_pct = 0;
    p.keyprobe_pct = 0;
    p.panic_pct = 10;
    p.rebuild_pct = 0;
    p.shared_ref_pct = 0;
    let mut g = Gen::new(seed, &p);
    let mut w = g.world_base();
    let mut own_targets: Vec<usize> = Vec::new();
    let all_rw = w.leaves.iter().all(|k| k.is_rw()) && g.rng.chance(1, 2);
    let nown = g.rng.range(1, 2);
    for _ in 0..nown {
        let n = g.rng.range(0, 4);
        let mut lids = Vec::new();
        for _ in 0..n {
            let kinds: Vec<LeafKind> = LeafKind::ALL.iter().copied().chain([LeafKind::ZM, LeafKind::ZR]).filter(|k| !all_rw || k.is_rw()).collect();
            w.leaves.push(*g.rng.pick(&kinds));
            lids.push(w.leaves.len() - 1);
        }
        let kind = *g.rng.pick(&[OwnKind::Boxed, OwnKind::Retry, OwnKind::Owned, OwnKind::Ref]);
        let mut ctors = vec![Ctor::New, Ctor::From, Ctor::FromIter];
        if kind != OwnKind::Owned {
            ctors.push(Ctor::TryNew);
        }
        if kind != OwnKind::Ref && n > 0 {
            // (a boxed collection is extended only if the library offers that; else built whole)
            ctors.push(Ctor::NewThenExtend(g.rng.range(1, n)));
            ctors.push(Ctor::NewThenExtendPanicky(g.rng.range(1, n)));
        }
        if n == 0 && kind != OwnKind::Ref {
            ctors.push(Ctor::Default);
        }
        let ctor = *g.rng.pick(&ctors);
        let cont = g.pick_cont(n);
        let poison = kind != OwnKind::Ref && g.rng.chance(1, 4);
        w.targets.push(TSpec::Own { kind, cont, leaves: lids, ctor, poison });
        own_targets.push(w.targets.len() - 1);
    }
    // reference collections over the arena, with drop-counting tags on their members; some
    // of them contain a duplicate and are rejected by the checked constructor
    let all = Gen::elems_of(&w);
    let mut tags = 0usize;
    let mut panicky: Vec<usize> = Vec::new();
    if !all.is_empty() {
        for _ in 0..g.rng.range(0, 2) {
            let mut es = g.random_subset(&all, (1, 3));
            if g.rng.chance(1, 2) {
                let d = es[g.rng.below(es.len())].clone();
                es.push(d);
                g.rng.shuffle(&mut es);
            }
            let members: Vec<TSpec> = es
                .iter()
                .map(|e| {
                    let inner = match e { Elem::Leaf(l) => TSpec::Leaf(*l), Elem::Unit(u) => TSpec::Unit(*u) };
                    tags += 1;
                    TSpec::Tagged(tags - 1, Box::new(inner))
                })
                .collect();
            let kind = *g.rng.pick(&[CollKind::Boxed, CollKind::Ref, CollKind::Retry]);
            let cont = g.pick_cont(members.len());
            // now and then one member's destructor panics when the collection is dropped
            // (accepted collections only: the others are dropped inside the constructor)
            let mut sorted = es.clone();
            sorted.sort();
            let dup = sorted.windows(2).any(|x| x[0] == x[1]);
            if !dup && g.rng.chance(1, 4) {
                panicky.push(tags - 1 - g.rng.below(members.len()));
            }
            w.targets.push(TSpec::Coll { kind, cont, members, poison: kind != CollKind::Ref && g.rng.chance(1, 5) });
        }
    }
    w.tags = tags;
    w.panicky_tags = panicky;
    let nthreads = g.rng.range(1, 3);
    let mut threads: Vec<Vec<Step>> = Vec::new();
    for ti in 0..nthreads {
        let mut steps = Vec::new();
        for _ in 0..g.rng.range(0, 3) {
            let t = g.rng.below(w.targets.len());
            if matches!(w.targets[t], TSpec::Coll { .. }) && w.has_dup(&w.targets[t]) {
                // rejected at construction: construct it again privately (constructor path with tags)
                steps.push(Step::NonAcq(NonAcqOp::Construct, t));
                continue;
            }
            let mut a = g.acq(&w, t);
            // a privately built collection is a local of the step: a panic in the section drops
            // it during the unwind (only reference collections can be rebuilt)
            a.rebuild = matches!(w.targets[t], TSpec::Coll { .. }) && g.rng.chance(1, 2);
            if a.rebuild && g.rng.chance(2, 5) && !a.body.iter().any(|b| matches!(b, BodyOp::Panic)) {
                a.body.push(BodyOp::Panic);
            }
            // favour writes: the round trip must reflect them
            let nflat = w.flatten(&w.targets[t], None).len();
            if nflat > 0 && !a.api.is_read() {
                a.body.push(BodyOp::Write(g.rng.below(nflat)));
            }
            steps.push(Step::Acquire(a));
        }
        if ti > 0 {
            steps.push(Step::GateOpen(ti - 1));
        }
        threads.push(steps);
    }
    // thread 0 destroys the owning collections once every writer is done
    for gi in 0..nthreads - 1 {
        threads[0].push(Step::GateWait(gi));
    }
    for &t in &own_targets {
        let d = *g.rng.pick(&[Dtor::Drop, Dtor::IntoChild, Dtor::IntoInner, Dtor::IntoIter, Dtor::GetMut, Dtor::ChildMut, Dtor::IterMut, Dtor::AsMut]);
        threads[0].push(Step::Destroy(t, d));
    }
    w.gates = nthreads.saturating_sub(1).max(1);
    let mut cfg = g.cfg(60);
    cfg.faults.try_refuse_pct = 0;
    Scenario { world: w, program: Program { threads }, cfg, profile: "C16".into() }
}

/// C03: mostly single-thread histories over every API flavour (success, failure, poisoned
/// results, panicking sections, unlock vs. drop), each key hand-back immediately followed by
/// a re-acquisition of the very same target; the rest are the concurrent programs of C01
pub fn gen_c03(seed: u64) -> Scenario {
    let mut p = Params::base();
    p.panic_pct = 10;
    p.keyprobe_pct = 8;
    let sequential = Rng::new(seed ^ 0x33).chance(2, 3);
    if sequential {
        p.threads = (1, 2);
        p.acqs = (3, 8);
    }
    let mut g = Gen::new(seed, &p);
    let mut w = g.world_base();
    g.add_targets(&mut w);
    let mut program = g.program(&w);
    if sequential {
        for th in program.threads.iter_mut() {
            let mut out = Vec::new();
            for st in th.drain(..) {
                let again = match &st {
                    Step::Acquire(a) if g.rng.chance(1, 2) => {
                        let mut b = g.acq(&w, a.target);
                        b.rebuild = a.rebuild;
                        Some(Step::Acquire(b))
                    }
                    _ => None,
                };
                out.push(st);
                if let Some(x) = again {
                    out.push(x);
                }
            }
            *th = out;
        }
        // a second thread in a sequential history only holds things the first one tries
        if program.threads.len() == 2 {
            for st in program.threads[1].iter_mut() {
                if let Step::Acquire(a) = st {
                    a.body.retain(|b| !matches!(b, BodyOp::Panic));
                }
            }
        }
    }
    let cfg = g.cfg(80);
    Scenario { world: w, program, cfg, profile: "C03".into() }
}

/// C09, retry depth as an explicit dimension: two holder threads keep knocking a retrying
/// acquisition of [A, B] back, alternately, exactly `2 * cycles + 1` times (every hand-over is
/// synchronised through gates and "wait until the victim is blocked on X", so the scenario
/// does not depend on the schedule), then let it complete.
pub fn gen_c09_deep(seed: u64) -> Scenario {
    let mut rng = Rng::new(seed ^ 0xD33F);
    let rw = rng.chance(1, 2);
    let kinds: Vec<LeafKind> = LeafKind::ALL.iter().copied().filter(|k| !rw || k.is_rw()).collect();
    let leaves = vec![*rng.pick(&kinds), *rng.pick(&kinds)];
    let mut slots = vec![Slot::Leaf(0), Slot::Leaf(1)];
    rng.shuffle(&mut slots);
    let cont = *rng.pick(&[ContKind::Vec, ContKind::BoxSlice, ContKind::Array, ContKind::Tuple]);
    let victim_target = TSpec::Coll { kind: CollKind::Retry, cont, members: vec![TSpec::Leaf(0), TSpec::Leaf(1)], poison: false };
    let w = WorldSpec { leaves, units: vec![], slots, targets: vec![victim_target, TSpec::Leaf(0), TSpec::Leaf(1)], datas: vec![], gates: 0, tags: 0, panicky_tags: vec![] };
    // mostly shallow, sometimes deep: 2 * cycles + 1 knock-backs of one acquisition
    let cycles = if rng.chance(1, 6) { rng.range(20, 150) } else { rng.range(1, 20) };
    // gates: gx_k = k, gy_k = (cycles + 1) + k
    let gx = |k: usize| k;
    let gy = |k: usize| cycles + 1 + k;
    let hold = |target: usize, body: Vec<BodyOp>| Step::Acquire(Acq { target, rebuild: false, api: Api::Lock, lent_key: false, body, release: Release::Drop, mutate: false });
    let (a, b, victim) = (0usize, 1usize, 0usize);
    let mut x = vec![hold(1, vec![BodyOp::GateOpen(gx(0)), BodyOp::GateWait(gy(0)), BodyOp::WaitBlocked(victim, a)])];
    let mut y = vec![hold(2, vec![BodyOp::GateOpen(gy(0)), BodyOp::GateWait(gx(1)), BodyOp::WaitBlocked(victim, b)])];
    for k in 1..=cycles {
        x.push(Step::WaitBlocked(victim, b));
        x.push(hold(1, vec![BodyOp::GateOpen(gx(k)), BodyOp::GateWait(gy(k)), BodyOp::WaitBlocked(victim, a)]));
        y.push(Step::WaitBlocked(victim, a));
        let mut body = vec![BodyOp::GateOpen(gy(k))];
        if k < cycles {
            body.push(BodyOp::GateWait(gx(k + 1)));
        }
        body.push(BodyOp::WaitBlocked(victim, b));
        y.push(hold(2, body));
    }
    let api = if rw && rng.chance(1, 2) { *rng.pick(&[Api::Read, Api::ScopedRead]) } else { *rng.pick(&[Api::Lock, Api::ScopedLock]) };
    let v = vec![
        Step::GateWait(gx(0)),
        Step::GateWait(gy(0)),
        Step::Acquire(Acq { target: 0, rebuild: false, api, lent_key: api.is_scoped() && rng.chance(1, 2), body: vec![BodyOp::Read(0), BodyOp::Read(1)], release: Release::Drop, mutate: false }),
    ];
    let mut w = w;
    w.gates = 2 * (cycles + 1) + 1;
    let p = Params::base();
    let mut g = Gen::new(seed, &p);
    let mut cfg = g.cfg(200);
    cfg.faults.try_refuse_pct = 0;
    cfg.max_steps = 60000;
    cfg.fair_after = 30000;
    Scenario { world: w, program: Program { threads: vec![v, x, y] }, cfg, profile: "C09".into() }
}

/// C08 with many locks: two or three sorting collections over the same 33-48 locks in
/// different arrangements, one thread, blocking acquisitions (sorting code may take another
/// path for long lists)
pub fn gen_c08_big(seed: u64) -> Scenario {
    let mut rng = Rng::new(seed ^ 0xB16);
    let n = rng.range(33, 48);
    let rw = rng.chance(1, 2);
    let leaves: Vec<LeafKind> = (0..n).map(|_| if rw { LeafKind::R } else { *rng.pick(&[LeafKind::M, LeafKind::R, LeafKind::PM]) }).collect();
    let mut slots: Vec<Slot> = (0..n).map(Slot::Leaf).collect();
    rng.shuffle(&mut slots);
    let mut targets = Vec::new();
    for _ in 0..rng.range(2, 3) {
        let mut ms: Vec<TSpec> = (0..n).map(TSpec::Leaf).collect();
        rng.shuffle(&mut ms);
        // sometimes part of the list sits in a nested collection
        if rng.chance(1, 2) {
            let k = rng.range(2, 6);
            let sub: Vec<TSpec> = ms.drain(..k).collect();
            let kind = *rng.pick(&[CollKind::Boxed, CollKind::Ref, CollKind::Retry]);
            ms.push(TSpec::Coll { kind, cont: ContKind::Vec, members: sub, poison: false });
            rng.shuffle(&mut ms);
        }
        let kind = *rng.pick(&[CollKind::Boxed, CollKind::Ref]);
        let cont = *rng.pick(&[ContKind::Vec, ContKind::BoxSlice]);
        targets.push(TSpec::Coll { kind, cont, members: ms, poison: false });
    }
    let nt = targets.len();
    let w = WorldSpec { leaves, units: vec![], slots, targets, datas: vec![], gates: 0, tags: 0, panicky_tags: vec![] };
    let mut steps = Vec::new();
    for t in 0..nt {
        let api = if rw && rng.chance(1, 2) { Api::Read } else { Api::Lock };
        steps.push(Step::Acquire(Acq { target: t, rebuild: rng.chance(1, 3), api, lent_key: false, body: vec![], release: Release::Drop, mutate: false }));
    }
    let p = Params::base();
    let mut g = Gen::new(seed, &p);
    let mut cfg = g.cfg(200);
    cfg.faults.try_refuse_pct = 0;
    Scenario { world: w, program: Program { threads: vec![steps] }, cfg, profile: "C08".into() }
}
