#!/bin/bash
# usage: ./sensitivity.sh <patch-file> <property> [more properties...]
# Applies the patch to a scratch copy of /repo (outside /repo and /verif), optionally runs the
# baseline suite there, runs the named quick checks against it, and removes the copy again.
set -u
PATCH=$(realpath "$1"); shift
SCR=$(mktemp -d /tmp/happymut-XXXXXX)
trap 'rm -rf "$SCR" /tmp/happysim-shadow-*' EXIT
rsync -a --exclude target --exclude .git /repo/ "$SCR/repo/"
( cd "$SCR/repo" && patch -p1 -s < "$PATCH" ) || { echo "PATCH-FAILED $PATCH"; exit 3; }
if [ "${MUT_BASELINE:-0}" = "1" ]; then
  ( cd "$SCR/repo" && cargo test --offline -q 2>&1 | grep -E "^test result" | awk '{p+=$4; f+=$6} END {print "baseline: passed",p,"failed",f}' )
fi
rc_all=0
for P in "$@"; do
  out=$(VERIF_REPO="$SCR/repo" VERIF_SCRATCH="$SCR" VERIF_RUNS="${MUT_RUNS:-${VERIF_RUNS:-40000}}" ./check "$P" quick 2>&1)
  rc=$?
  echo "[$P rc=$rc] $(echo "$out" | grep -E "VIOLATION|HARNESS|KNOWN" | head -2 | tr '\n' ' ')"
  [ $rc -eq 1 ] || rc_all=1
done
exit $rc_all
